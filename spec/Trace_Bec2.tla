------------------------------ MODULE Trace_Bec2 ------------------------------
(* C->S for BEC2 (C02 C03 C07 C08 C09): recorded public calls of the real library judged by Bec2Concrete.
   ops:  c08.wrap  c08.unwrap  bec2.write  bec2.read  (field lists in harness/bec2lib.py and checks/c0x.py) *)
EXTENDS Bec2Concrete, Json, IOUtils, TLC
CONSTANT ECC_FALLBACK_SEL0         \* deviation switch (code before fix #4): the fallback recipient is always selector 0's key
Trace == ndJsonDeserialize(IOEnv.TRACE_FILE)
VARIABLE i

HexBytes(s) == s     \* (events carry bytes as arrays already)
\* BALTECH's published recipient keys per selector (SubjectPublicKeyInfo DER), transcribed from the documented values
Pub0 == <<48,89,48,19,6,7,42,134,72,206,61,2,1,6,8,42,134,72,206,61,3,1,7,3,66,0,4,5,123,86,93,151,106,51,6,232,189,9,74,70,113,19,129,152,112,125,11,182,124,136,164,94,143,55,93,203,20,22,201,81,152,132,226,16,154,2,121,32,114,175,35,121,17,166,18,235,22,33,56,54,233,15,221,66,27,71,158,189,152,21,142>>
Pub1 == <<48,89,48,19,6,7,42,134,72,206,61,2,1,6,8,42,134,72,206,61,3,1,7,3,66,0,4,215,177,181,203,208,88,122,226,46,145,174,226,41,185,83,74,146,12,144,95,88,81,60,180,57,31,140,63,90,27,70,76,204,5,145,126,92,89,195,174,62,17,151,153,43,47,187,36,243,66,56,209,228,187,198,45,192,219,200,243,105,3,233,43>>
Pub2 == <<48,89,48,19,6,7,42,134,72,206,61,2,1,6,8,42,134,72,206,61,3,1,7,3,66,0,4,12,215,49,237,55,48,229,63,114,68,238,113,216,213,79,83,0,136,95,246,69,236,143,210,127,163,217,209,196,98,159,175,101,54,161,245,180,111,12,124,169,35,238,40,76,17,91,157,101,20,237,239,154,161,253,191,31,84,3,11,73,174,248,166>>
Pub3 == <<48,89,48,19,6,7,42,134,72,206,61,2,1,6,8,42,134,72,206,61,3,1,7,3,66,0,4,182,188,61,49,132,23,174,144,153,162,40,194,154,13,232,90,192,83,234,181,179,170,80,139,244,164,56,191,21,255,139,85,26,4,0,64,81,128,26,61,8,166,5,87,21,201,223,243,143,210,239,170,49,28,129,84,189,154,48,37,151,200,96,83>>
Published == <<Pub0, Pub1, Pub2, Pub3>>

\* ---- C08
WrapVerdict(ev) ==
    LET plain == CustWrapPlain(ev.plain, ev.ck, ev.pos) IN
    IF Len(ev.out) = 0 \/ Len(ev.out) % 16 # 0 THEN "not-whole-blocks"
    ELSE IF ~FrameOK(CbcDec(ev.key, Zero16, ev.out), plain) THEN "frame-layout"
    ELSE IF ev.out # Wrap(ev.key, plain) THEN "wrap-bytes"
    ELSE "ok"
UnwrapVerdict(ev) ==
    LET u == CustUnwrap(ev.key, ev.ck, ev.pos, ev.c) IN
    IF u.ok /\ ev.kind # "ok" THEN "rejected-valid-frame"
    ELSE IF ~u.ok /\ ev.kind = "ok" THEN "accepted-bad-frame:" \o u.err
    ELSE IF u.ok /\ ev.payload # u.payload THEN "payload-differs"
    ELSE "ok"

\* ---- bec2.write: header blocks vs. what the object said
Recipient(b, encs) ==
    LET j == FirstOf(encs, LAMBDA e : e.sel = b.sel) IN
    IF j # 0 THEN encs[j].pub ELSE Published[(IF ECC_FALLBACK_SEL0 THEN 0 ELSE b.sel) + 1]
BlockVerdict(b, hb, sk, encs) ==
    IF hb.tag # b.tag THEN "block-tag"
    ELSE IF b.passthru = 1 THEN (IF hb.raw # b.raw THEN "unknown-block-not-passed-through" ELSE "ok")
    ELSE IF b.tag = 1 THEN
        LET u == Unwrap(b.wkey, hb.raw)  plain == CustWrapPlain(Zeros(10) \o sk, b.ck, b.pos) IN
        IF ~u.ok THEN "cust-block-unwrap:" \o u.err ELSE IF u.payload # plain THEN "cust-block-payload"
        ELSE IF ~FrameOK(CbcDec(b.wkey, Zero16, hb.raw), plain) THEN "cust-block-frame" ELSE "ok"
    ELSE IF b.tag = 2 THEN
        LET u == Unwrap(b.wkey, hb.raw) IN
        IF ~u.ok THEN "update-block-unwrap:" \o u.err ELSE IF u.payload # sk \o <<b.version>> THEN "update-block-payload"
        ELSE IF ~FrameOK(CbcDec(b.wkey, Zero16, hb.raw), u.payload) THEN "update-block-frame" ELSE "ok"
    ELSE IF b.tag = 3 THEN
        IF Len(hb.raw) # 82 \/ hb.raw[1] # b.sel \/ hb.raw[2] # 4 THEN "ecc-block-format"
        ELSE IF b.eph # SubSeq(hb.raw, 3, 66) THEN "ecc-ephemeral-not-the-generated-one"
        ELSE IF b.rcpt # Recipient(b, encs) THEN "ecc-recipient"
        ELSE IF Len(b.ecckey) = 16 /\ CbcDec(b.ecckey, Zero16, SubSeq(hb.raw, 67, 82)) # sk THEN "ecc-wrapped-key"
        ELSE IF b.needkey = 1 /\ Len(b.ecckey) # 16 THEN "ecc-point-refused-by-oracle"
        ELSE "ok"
    ELSE IF hb.raw # b.raw THEN "unknown-block-not-passed-through" ELSE "ok"
RECURSIVE BlocksVerdict(_, _, _, _, _)
BlocksVerdict(bs, hbs, sk, encs, j) ==
    IF j > Len(bs) THEN "ok"
    ELSE LET v == BlockVerdict(bs[j], hbs[j], sk, encs) IN IF v # "ok" THEN v ELSE BlocksVerdict(bs, hbs, sk, encs, j + 1)
WriteVerdict(ev) ==
    LET rt == ReadText(ev.text) IN
    IF ~rt.ok THEN "text-unreadable"
    ELSE LET h == SplitHeader(rt.bin) IN
         IF ~h.ok THEN "header:" \o h.err
         ELSE IF Len(h.blocks) # Len(ev.blocks) THEN "block-count"
         ELSE LET bv == BlocksVerdict(ev.blocks, h.blocks, ev.key, ev.encs, 1) IN
              IF bv # "ok" THEN bv
              ELSE IF SubSeq(rt.bin, h.off + 1, Len(rt.bin)) # L!Serialize(ev.comps, h.off, ev.key) THEN "body-bytes"
              ELSE IF ~TextMatches(ev.text, ev.comments, rt.bin) THEN "text-envelope"
              ELSE "ok"

\* ---- bec2.read
SameComp(a, b) == /\ a.desc = b.desc /\ a.alen = b.alen /\ a.enc = b.enc
                  /\ IF a.enc THEN Len(a.blob) >= a.alen /\ Len(b.blob) >= a.alen /\ SubSeq(a.blob, 1, a.alen) = SubSeq(b.blob, 1, a.alen)
                     ELSE a.blob = b.blob
SameComps(x, y) == Len(x) = Len(y) /\ \A j \in 1..Len(x) : SameComp(x[j], y[j])
NoSilentAccept(ev) == (ev.has_auth = 1 /\ ev.kind = "ok") =>
                         (ev.key = ev.auth_key /\ SameComps(ev.comps, ev.auth_comps) /\ ev.comments = ev.auth_comments)
ReadVerdict(ev) ==
    LET rt == ReadText(ev.text) IN
    IF ~rt.ok THEN (IF ev.kind = "ok" THEN "accepted-bad-text" ELSE "ok")
    ELSE LET r == ReadBec2(rt.bin, ev.ecckeys, ev.decs, ev.check) IN
         \* auth_blocks (C04): the block list the same decryptors returned for the AUTHENTIC file.  The header is not
         \* authenticated, so a damaged block may legitimately turn into an opaque one (the specification's reader then
         \* accepts the file as well); but a file the specification REFUSES, accepted with another block list than the
         \* authentic one, is damaged content passed off as valid
         IF ~r.ok THEN (IF ev.kind = "ok"
                        THEN (IF "auth_blocks" \in DOMAIN ev /\ ev.blocks # ev.auth_blocks
                              THEN "silent-accept-blocks:" \o r.err ELSE "accepted-malformed:" \o r.err)
                        ELSE "ok")
         ELSE IF ev.kind # "ok" THEN "rejected-wellformed"
         \* (an EMPTY key - crafted empty payload, unchecked mode - is replaced by a fresh random key by the Bec2File constructor)
         ELSE IF ev.key # r.key /\ ~(r.key = <<>> /\ Len(ev.key) = 16) THEN "session-key-differs"
         ELSE IF ev.blocks # r.blocks THEN "auth-blocks-differ"
         ELSE IF ev.comps # r.comps THEN "content-differs-from-fields"
         ELSE IF ev.comments # rt.comments THEN "comments-differ"
         ELSE "ok"

\* ---- C09: one ECC block packed directly / unwrapped directly
PackVerdict(ev) ==
    LET v == BlockVerdict(ev.b, [tag |-> 3, raw |-> ev.raw], ev.sk, ev.encs) IN
    IF v # "ok" THEN v ELSE IF ev.eph_valid # 1 THEN "ephemeral-point-invalid-per-oracle"
    \* (argmod: the caller's list of encryptors differed after the call - packing reads its arguments, it does not edit them)
    ELSE IF "argmod" \in DOMAIN ev /\ ev.argmod = 1 THEN "argument-modified" ELSE "ok"
EccUnwrapVerdict(ev) ==      \* ev.raw: block without the selector byte; ev.valid: OpenSSL accepts the point
    IF Len(ev.raw) < 81 \/ ev.raw[1] # 4 \/ ev.valid # 1 THEN (IF ev.kind = "ok" THEN "accepted-invalid-point-or-format" ELSE "ok")
    ELSE IF ev.kind # "ok" THEN "rejected-valid-block"
    ELSE IF Len(ev.ecckey) # 16 THEN "oracle-key-missing"
    ELSE IF ev.key # CbcDec(ev.ecckey, Zero16, SubSeq(ev.raw, 66, 81)) THEN "unwrapped-key-differs"
    ELSE "ok"
\* ---- C06: no secret needle in the written binary
RECURSIVE OccursFrom(_, _, _)
OccursFrom(hay, nd, p) == IF p + Len(nd) - 1 > Len(hay) THEN FALSE
                          ELSE IF SubSeq(hay, p, p + Len(nd) - 1) = nd THEN TRUE ELSE OccursFrom(hay, nd, p + 1)
FirstAt(hay, b) == {p \in 1..Len(hay) : hay[p] = b}
Occurs(hay, nd) == Len(nd) > 0 /\ \E p \in FirstAt(hay, nd[1]) : p + Len(nd) - 1 <= Len(hay) /\ SubSeq(hay, p, p + Len(nd) - 1) = nd
ScanVerdict(ev) ==
    LET rt == ReadText(ev.text) IN
    IF ~rt.ok THEN "text-unreadable"
    ELSE IF \E j \in 1..Len(ev.needles) : Occurs(rt.bin, ev.needles[j].bytes)
         THEN "secret-in-clear:" \o (CHOOSE nm \in {ev.needles[j].name : j \in {q \in 1..Len(ev.needles) : Occurs(rt.bin, ev.needles[q].bytes)}} : TRUE)
    ELSE IF \E j \in 1..Len(ev.needles) : Occurs(ev.text, ev.needles[j].bytes) THEN "secret-in-text"
    ELSE "ok"
NoCipherVerdict(ev) ==
    IF ev.kind = "ok" THEN "write-succeeded-without-cipher"
    ELSE IF \E j \in 1..Len(ev.needles) : Occurs(ev.emitted, ev.needles[j].bytes) THEN "plaintext-emitted-before-failure"
    ELSE "ok"
\* ---- AES.tla itself against OpenSSL (closes the trust loop on the transcription)
AesVerdict(ev) == IF EncBlock(ev.key, ev.pt) # ev.ct THEN "aes-tla-differs-from-openssl"
                  ELSE IF DecBlock(ev.key, ev.ct) # ev.pt THEN "aes-tla-decrypt" ELSE "ok"

\* ---- BF3 framing (same clauses as Trace_Bf3)
Bf3WriteVerdict(ev) ==
    LET bin == Bf3Sig \o L!Serialize(ev.comps, 5, ev.key)
        t   == IF ev.disk = 1 THEN FromDisk(ev.text) ELSE ev.text
    IN  IF ~TextMatches(t, ev.comments, bin) THEN "text-envelope"
        ELSE IF ev.disk = 1 /\ ev.text # ToDisk(t) THEN "crlf-translation"
        ELSE "ok"
Bf3ReadVerdict(ev) ==
    LET t  == IF ev.disk = 1 THEN FromDisk(ev.text) ELSE ev.text
        rt == ReadText(t)
    IN  IF ~rt.ok THEN (IF ev.kind = "ok" THEN "accepted-bad-text" ELSE "ok")
        ELSE IF Len(rt.bin) < 5 \/ SubSeq(rt.bin, 1, 5) # Bf3Sig THEN (IF ev.kind = "ok" THEN "accepted-bad-signature" ELSE "ok")
        ELSE LET p == L!Parse(rt.bin, 5, ev.key, ev.check) IN
             IF ~p.ok THEN (IF ev.kind = "ok" THEN "accepted-malformed:" \o p.err ELSE "ok")
             ELSE IF ev.kind # "ok" THEN "rejected-wellformed"
             ELSE IF ev.comps # p.comps THEN "content-differs-from-fields"
             ELSE IF ev.comments # rt.comments THEN "comments-differ"
             ELSE "ok"
Bf3NoSilentAccept(ev) == (ev.has_auth = 1 /\ ev.kind = "ok") => (SameComps(ev.comps, ev.auth_comps) /\ ev.comments = ev.auth_comments)

\* ---- C14: one call of a parsing entry point on arbitrary text
AllowedClass(mro) == \E j \in 1..Len(mro) : mro[j] \in {"FormatError", "ValueError"}
CallVerdict(ev) ==
    IF ev.timeout = 1 THEN "hang"
    ELSE IF ev.reg_same # 1 THEN "library-global-state-changed"
    ELSE IF ev.kind = "raise" /\ ~AllowedClass(ev.mro) THEN "exception-class"
    ELSE "ok"

\* ---- a directory too large to parse here (C05: 2^16 entries and more): the harness assembles it entry by entry; this event carries
\* the LAST entry (index n): body, the MAC stored in the file, and the reader's verdict on the whole file.  Everything else in
\* the file is built by the same loop that the smaller crafted directories use (those ARE parsed completely by the specification).
BigDirVerdict(ev) ==
    LET good == CMac(ev.key, ev.n, ev.body) = ev.mac IN
    IF good /\ ev.kind # "ok" THEN "rejected-wellformed"
    ELSE IF ~good /\ ev.kind = "ok" THEN "accepted-malformed:entry-mac"
    ELSE "ok"

Verdict(ev) ==
    IF ev.op = "c08.wrap" THEN WrapVerdict(ev)
    ELSE IF ev.op = "bf3.bigdir" THEN BigDirVerdict(ev)
    ELSE IF ev.op = "c14.call" THEN CallVerdict(ev)
    ELSE IF ev.op = "bf3.write" THEN Bf3WriteVerdict(ev)
    ELSE IF ev.op = "bf3.read" THEN (IF ~Bf3NoSilentAccept(ev) THEN "silent-accept" ELSE Bf3ReadVerdict(ev))
    ELSE IF ev.op = "c09.pack" THEN PackVerdict(ev)
    ELSE IF ev.op = "c09.unwrap" THEN EccUnwrapVerdict(ev)
    ELSE IF ev.op = "c06.scan" THEN ScanVerdict(ev)
    ELSE IF ev.op = "c06.nocipher" THEN NoCipherVerdict(ev)
    ELSE IF ev.op = "aes.block" THEN AesVerdict(ev)
    ELSE IF ev.op = "bf3.to_binary" THEN (IF ev.out = L!Serialize(ev.comps, ev.off, ev.key) THEN "ok" ELSE "serialize-bytes")
    ELSE IF ev.op = "c08.unwrap" THEN UnwrapVerdict(ev)
    ELSE IF ev.op = "bec2.write" THEN WriteVerdict(ev)
    ELSE IF ev.op = "bec2.read" THEN (IF ~NoSilentAccept(ev) THEN "silent-accept" ELSE ReadVerdict(ev))
    ELSE "unknown-op"
Init == i = 1
Next == /\ i <= Len(Trace)
        /\ LET v == Verdict(Trace[i]) IN IF v = "ok" THEN TRUE ELSE PrintT(<<"REJ", Trace[i].tid, v, "">>)
        /\ i' = i + 1
        /\ IF i = Len(Trace) THEN PrintT(<<"DONE", i>>) ELSE TRUE
=============================================================================
