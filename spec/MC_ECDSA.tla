----------------------------- MODULE MC_ECDSA -----------------------------
(* Exhaustive check of ECDSA on one tiny prime-order curve: every private key d, digest values z = 0..N+1 and
   2^QLen - 1 (the largest value Bits2Int can produce; Verify and Sign depend on z mod N only: SignReduces),
   every (r, s) in (0..2N)^2 (so 0, N, N+1 and 2^k are inside) and every nonce k in 1..N-1:
   the accept set of Verify is exactly the set of signatures Sign can produce.
   State = (d, z, ph); the phase ph only spreads the three groups of invariants over separate states/workers. *)
EXTENDS ECDSA, TLC
VARIABLES d, z, ph

ZMax == Pow2(QLen) - 1
Init == d \in 1..(N - 1) /\ z \in (0..(N + 1)) \cup {ZMax} /\ ph = 0
Next == ph < 2 /\ ph' = ph + 1 /\ UNCHANGED <<d, z>>

ASSUME H = 1
\* Bits2Int: leftmost QLen bits, independent of what follows them, always below 2^QLen
ASSUME QLen <= 8
ASSUME \A b1 \in 0..255 : /\ Bits2Int(<<b1>>) = b1 \div Pow2(8 - QLen)
                          /\ Bits2Int(<<b1>>) \in 0..ZMax
                          /\ \A b2 \in {0, 1, 127, 128, 255} : /\ Bits2Int(<<b1, b2>>) = Bits2Int(<<b1>>)
                                                             /\ Bits2Int(<<b1, b2, 255 - b2>>) = Bits2Int(<<b1>>)
ASSUME Bits2Int(<<>>) = 0

\* non-vacuity of the range boundaries: which of r = 1, r = N-1, s = 1, s = N-1 occur in VALID signatures on this curve
\* (r depends on the nonce only; s is looked for with d = 1).  Printed once; the check records it and insists that
\* r = N-1 is reached on at least one model curve.
RsReached == {Mul(kk, G)[2] % N : kk \in {k2 \in 1..(N - 1) : Mul(k2, G)[1] = 0}}
SsReached == {sg[3] : sg \in {s2 \in {Sign(1, zz, kk) : zz \in 0..(N - 1), kk \in 1..(N - 1)} : s2[1] = "ok"}}
ASSUME PrintT(<<"BOUNDARY", 1 \in RsReached, (N - 1) \in RsReached, 1 \in SsReached, (N - 1) \in SsReached>>)

Sigs == {Sign(d, z, kk) : kk \in 1..(N - 1)}
SignVerifies == ph = 0 => LET Q == Pub(d) IN \A sg \in Sigs : sg[1] = "ok" => Verify(Q, z, sg[2], sg[3])
SignReduces  == ph = 0 => \A kk \in 1..(N - 1) : Sign(d, z, kk) = Sign(d, z % N, kk)
ExactAccept  == ph = 1 => LET sigs == Sigs  Q == Pub(d) IN
                   \A r \in 0..(2 * N), s \in 0..(2 * N) : Verify(Q, z, r, s) <=> (<<"ok", r, s>> \in sigs)
RangeReject  == ph = 1 => LET Q == Pub(d) IN
                   \A r \in 0..(2 * N), s \in 0..(2 * N) :
                       (r \in {0, N, N + 1, 2 * N} \/ s \in {0, N, N + 1, 2 * N}) => ~Verify(Q, z, r, s)
\* the class of inputs behind finding C18:verifies-at-infinity exists: for every in-range (r, s) exactly one
\* digest residue sends u1*G + u2*Q to infinity, and Verify rejects it
InfUnique    == (ph = 2 /\ z = 0) => LET Q == Pub(d) IN \A r \in 1..(N - 1), s \in 1..(N - 1) :
                    LET inf == {zz \in 0..(N - 1) : AtInfinity(Q, zz, r, s)} IN
                    /\ Cardinality(inf) = 1
                    /\ \A zz \in inf : ~Verify(Q, zz, r, s)

\* self-test: a verifier with u1 and u2 exchanged must be refuted
BadExactAccept == ph = 1 => LET sigs == Sigs  Q == Pub(d) IN
                   \A r \in 0..(2 * N), s \in 0..(2 * N) : BadVerify(Q, z, r, s) <=> (<<"ok", r, s>> \in sigs)
=============================================================================
