----------------------------- MODULE MC_ECDSA -----------------------------
(* Exhaustive check of ECDSA on one tiny prime-order curve: every private key d, every digest value z that
   Bits2Int can produce (0 .. 2^QLen - 1, so z >= N is included), every r in 0..2N (state), every s in 0..2N
   (quantified): the accept set of Verify is exactly the set of signatures Sign can produce. *)
EXTENDS ECDSA, TLC
VARIABLES d, z, r

ZMax == Pow2(QLen) - 1
Init == d \in 1..(N - 1) /\ z \in 0..ZMax /\ r = 0
Next == r < 2 * N /\ r' = r + 1 /\ UNCHANGED <<d, z>>

ASSUME H = 1
\* Bits2Int: leftmost QLen bits, independent of what follows them, always below 2^QLen
ASSUME QLen <= 8
ASSUME \A b1 \in 0..255 : /\ Bits2Int(<<b1>>) = b1 \div Pow2(8 - QLen)
                          /\ Bits2Int(<<b1>>) \in 0..ZMax
                          /\ \A b2 \in {0, 1, 127, 128, 255} : /\ Bits2Int(<<b1, b2>>) = Bits2Int(<<b1>>)
                                                             /\ Bits2Int(<<b1, b2, 255 - b2>>) = Bits2Int(<<b1>>)
ASSUME Bits2Int(<<>>) = 0

Sigs == {Sign(d, z, kk) : kk \in 1..(N - 1)}
SignVerifies == r = 0 => LET Q == Pub(d) IN \A sg \in Sigs : sg[1] = "ok" => Verify(Q, z, sg[2], sg[3])
SignReduces  == r = 0 => \A kk \in 1..(N - 1) : Sign(d, z, kk) = Sign(d, z % N, kk)
ExactAccept  == LET sigs == Sigs  Q == Pub(d) IN \A s \in 0..(2 * N) : Verify(Q, z, r, s) <=> (<<"ok", r, s>> \in sigs)
RangeReject  == LET Q == Pub(d) IN \A s \in 0..(2 * N) : (r \in {0, N, N + 1, 2 * N} \/ s \in {0, N, N + 1, 2 * N}) => ~Verify(Q, z, r, s)
\* the class of inputs behind finding C18:verifies-at-infinity exists: for every in-range (r, s) exactly one
\* digest residue sends u1*G + u2*Q to infinity, and Verify rejects it
InfUnique    == (z = 0 /\ r \in 1..(N - 1)) => LET Q == Pub(d) IN \A s \in 1..(N - 1) :
                    LET inf == {zz \in 0..(N - 1) : AtInfinity(Q, zz, r, s)} IN
                    /\ Cardinality(inf) = 1
                    /\ \A zz \in inf : ~Verify(Q, zz, r, s)

\* self-test: a verifier with u1 and u2 exchanged must be refuted
BadExactAccept == LET sigs == Sigs  Q == Pub(d) IN \A s \in 0..(2 * N) : BadVerify(Q, z, r, s) <=> (<<"ok", r, s>> \in sigs)
=============================================================================
