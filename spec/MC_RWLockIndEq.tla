--------------------------- MODULE MC_RWLockIndEq ---------------------------
(* Binding of RWLockInd.tla (the Apalache-typed restatement used for the inductive
   argument) to RWLock.tla (the model that is bound to the real code by check C20).
   TLC evaluates both on EVERY state of the instance that satisfies RWLockInd!Roles
   (the first, purely local conjunct of the inductive invariant: readers at reader labels,
   writers at writer labels, done iff no pass left) - arbitrary pc, owner, counters and
   passes left, reachable or not, i.e. a superset of the states the inductive step
   quantifies over - and requires them to agree:

     TableEq      OpOf/LockOf/Labels of RWLockInd are the columns of RWLock!Info
     StepEq       per thread, the two step relations are the same relation
     NextEq       so are Next and the two self-test variants BadNext*
     EnabledEq    RWLockInd!Enabled(t) is ENABLED Step(t); NoDeadlock is ENABLED Next
     PropEq       Mutex, ReleaseHeld, CountersOK, AllDone are the same predicates
     InitEq       RWLock!Init is RWLockInd!Init with left[t] = Passes

   A step of thread t reads pc[t], left[t], rc, wc and whether a lock is free, and
   writes pc[t], left[t], rc, wc and owner[l] := t or 0, so one reader and one writer
   with both counters ranging over 0..2 (first / not first, last / not last) exercise
   every branch of every action ("all": 955 719 states).  So that nothing rests on that
   remark alone, the same invariants are also checked on the reachable states of the
   2 readers + 2 writers x 2 passes instance ("reach").

   cfg (written by harness/apalache.py):
     all:    CONSTANTS R = 1 W = 1 Passes = 2   INIT EqSeed NEXT EqFan
     reach:  CONSTANTS R = 2 W = 2 Passes = 2   INIT Init   NEXT Next
     INVARIANTS StepEq NextEq EnabledEq PropEq InitEq
   (EqSeed/EqFan instead of one big INIT: TLC enumerates initial states on one thread, successors
   on all workers.) *)
EXTENDS MC_RWLock

Ind == INSTANCE RWLockInd

TableEq == /\ Ind!Labels = Labels
           /\ Ind!Locks = Locks
           /\ Ind!Threads = Threads /\ Ind!Readers = Readers /\ Ind!Writers = Writers
           /\ \A l \in Labels : Ind!OpOf(l) = Info[l].op /\ Ind!LockOf(l) = Info[l].lk
ASSUME TableEq

CMax == 2
Free == [l \in Locks |-> 0]
EqSeed == /\ pc \in [Threads -> Labels]
          /\ left \in [Threads -> 0..Passes]
          /\ Ind!Roles
          /\ owner = Free /\ rc = 0 /\ wc = 0
EqFan == /\ owner = Free /\ rc = 0 /\ wc = 0
         /\ UNCHANGED <<pc, left>>
         /\ owner' \in [Locks -> Threads \cup {0}]
         /\ rc' \in 0..CMax /\ wc' \in 0..CMax

Same(A, B) == ~ ENABLED (A /\ ~B) /\ ~ ENABLED (B /\ ~A)

StepEq == \A t \in Threads : Same(Step(t), Ind!Step(t))
NextEq == /\ Same(Next, Ind!Next)
          /\ Same(BadNextNoExcl, Ind!BadNextNoExcl)
          /\ Same(BadNextNoQueueRel, Ind!BadNextNoQueueRel)
EnabledEq == /\ \A t \in Threads : Ind!Enabled(t) <=> ENABLED Step(t)
             /\ Ind!NoDeadlock <=> ENABLED Next
PropEq == /\ Mutex <=> Ind!Mutex
          /\ ReleaseHeld <=> Ind!ReleaseHeld
          /\ CountersOK <=> Ind!CountersOK
          /\ AllDone <=> Ind!AllDone
InitEq == Init <=> (Ind!Init /\ left = [t \in Threads |-> Passes])

(* self-test of this binding: a restatement that differs in one action must be told apart *)
WrongStep(t) == IF pc[t] = "rr_rm" THEN Ind!RR_SwitchIn(t) /\ FALSE ELSE Ind!Step(t)
WrongEq == \A t \in Threads : Same(Step(t), WrongStep(t))
=============================================================================
