-------------------------------- MODULE MC_Bf3 --------------------------------
(* Bounded abstract instance, exhaustive.  State: an authentic content, the key it was written
   with, and (after one Damage step) a damaged copy of the written file and the key the reader uses.
   Contents are built by AddComp steps so that all workers are used.
     RoundTrip        C01  Read(Write(f)) = f for every key, MAC check on/off
     LayoutLemmas     C03  directory size independent of key/offset; addresses absolute and contiguous;
                           every field recovered; payload region = stored payloads in order up to EOF
     CipherOnly       C06  an encrypted component's payload cells are cipher cells of the padded content
                           under the file key; read-back returns the content up to its declared length
     NoSilentAccept   C04  a damaged file is rejected or read as exactly the authentic content *)
EXTENDS Bf3Abstract, TLC
CONSTANTS MaxComps, MaxBlob, WithEnc
VARIABLES comps, wkey, file, rkey, phase     \* phase \in {"build","damaged"}
vars == <<comps, wkey, file, rkey, phase>>

Bits == {0, 1}
Blobs == UNION {[1..n -> {ICell(0), ICell(1)}] : n \in 1..MaxBlob}
Descs == { <<>>, << <<1, <<>> >> >>, << <<1, <<ICell(7)>> >> >>,
           << <<1, <<ICell(7)>> >>, <<3, <<>> >> >>, << <<3, <<>> >>, <<1, <<ICell(7)>> >> >> }
EncDesc == << <<2, <<ICell(2)>> >> >>
PlainComps == {[desc |-> d, blob |-> b, alen |-> a, enc |-> FALSE] : d \in Descs, b \in Blobs, a \in {1, MaxBlob}} 
EncComps == IF WithEnc THEN {[desc |-> EncDesc, blob |-> b, alen |-> Len(b), enc |-> TRUE] : b \in Blobs} ELSE {}
Keys == {0, 1}
Norm(c) == [c EXCEPT !.alen = IF c.alen > Len(c.blob) THEN Len(c.blob) ELSE c.alen]

Init == comps = <<>> /\ wkey \in Keys /\ file = <<>> /\ rkey = wkey /\ phase = "build"
AddComp == /\ phase = "build" /\ Len(comps) < MaxComps
           /\ \E c \in PlainComps \cup EncComps : comps' = Append(comps, Norm(c))
           /\ UNCHANGED <<wkey, file, rkey, phase>>

\* ---- faults on the stored file (Medium)
Written == WriteFile(comps, wkey)
TokensOf(f) == {f[j] : j \in 1..Len(f)}
Replacement(f, p) == ({ICell(0), ICell(31), [k |-> "g", v |-> <<0, <<>>, 0>>]}
                      \cup (IF f[p].k = "i" THEN {ICell(f[p].v[1] + 1), ICell((f[p].v[1] + 30) % 31)} ELSE {})
                      \cup TokensOf(f)) \ {f[p]}
Damage == /\ phase = "build"
          /\ LET f == Written IN
             \/ \E p \in 1..Len(f) : \E v \in Replacement(f, p) : file' = [f EXCEPT ![p] = v] /\ rkey' = wkey
             \/ \E n \in 0..(Len(f) - 1) : file' = SubSeq(f, 1, n) /\ rkey' = wkey          \* every proper prefix
             \/ \E s \in {<<ICell(0)>>, <<ICell(31)>>, <<ICell(0), ICell(0)>>} : file' = f \o s /\ rkey' = wkey
             \/ file' = f /\ rkey' = 1 - wkey                                               \* other key
          /\ phase' = "damaged" /\ UNCHANGED <<comps, wkey>>
Next == AddComp \/ Damage
Spec == Init /\ [][Next]_vars

\* ---- C01
SameContent(a, b) == Len(a) = Len(b) /\ \A j \in 1..Len(a) :
      /\ a[j].desc = b[j].desc /\ a[j].alen = b[j].alen /\ a[j].enc = b[j].enc
      /\ IF a[j].enc THEN Len(b[j].blob) >= b[j].alen /\ SubSeq(a[j].blob, 1, a[j].alen) = SubSeq(b[j].blob, 1, b[j].alen)
         ELSE a[j].blob = b[j].blob
RoundTrip == phase = "build" =>
    \A chk \in BOOLEAN : LET r == ReadFile(Written, wkey, chk) IN r.ok /\ SameContent(comps, r.comps)
\* ---- C03
RECURSIVE SumStored(_, _, _)
SumStored(cs, j, key) == IF j = 0 THEN 0 ELSE Len(L!Raw(cs[j], key)) + SumStored(cs, j - 1, key)
LayoutLemmas == phase = "build" =>
    \A key \in Keys : \A off \in {0, 1, 5} :
       LET s   == L!Serialize(comps, off, key)
           dsz == L!IntOf(SubSeq(s, 1, 1))
           dr  == L!DirFrom(SubSeq(s, 2, 1 + dsz), 0, 1, key, TRUE, <<>>)
       IN  /\ 1 + dsz = L!DirSize(comps)                                    \* size field = real size, key/offset independent
           /\ dr.ok /\ Len(dr.ents) = Len(comps)
           /\ \A j \in 1..Len(comps) :
                /\ dr.ents[j].adr = off + L!DirSize(comps) + SumStored(comps, j - 1, key)   \* absolute, contiguous
                /\ dr.ents[j].total = Len(L!Raw(comps[j], key)) /\ dr.ents[j].plen = comps[j].alen
                /\ dr.ents[j].desc = comps[j].desc
                /\ dr.ents[j].pmac = AMac(key, 0, L!Raw(comps[j], key))
           /\ SubSeq(s, L!DirSize(comps) + 1, Len(s)) = L!PayloadsFrom(comps, 1, key)           \* payloads up to EOF
\* ---- C06
CipherOnly == phase = "build" =>
    \A j \in 1..Len(comps) : comps[j].enc =>
       LET raw == L!Raw(comps[j], wkey) IN
       /\ Len(raw) % ABLK = 0 /\ IsCipherOf(wkey, raw) /\ raw[1].v[2] = APad(comps[j].blob)
       /\ \A q \in 1..Len(raw) : raw[q].k = "e"
\* ---- C04
NoSilentAccept == phase = "damaged" =>
    LET r == ReadFile(file, rkey, TRUE) IN r.ok => SameContent(comps, r.comps)
\* used by the self-test: with the MAC check off, damage IS silently accepted (shows the invariant is not vacuous)
NoSilentAcceptUnchecked == phase = "damaged" =>
    LET r == ReadFile(file, rkey, FALSE) IN r.ok => SameContent(comps, r.comps)
=============================================================================
