-------------------------------- MODULE DER --------------------------------
(* DER (X.690) on byte sequences, as far as EC key files need it.

   A byte string is a TLA+ sequence over 0..255.  All decoders work on indices into
   one string s (window p..hi, both inclusive) so that nothing is copied, and all are
   TOTAL: they return a record with ok = FALSE and the name of the failing clause
   instead of being undefined.

   Length octets (X.690 8.1.3, 10.1):  short form 0..127 in one octet; long form
   0x80+k followed by k octets, big-endian; DER requires the minimal form (no leading
   zero octet, and the long form only for values >= 128); 0x80 (indefinite) is not DER.
   Values that do not fit 3 length octets (>= 2^24) are reported as "len-huge": no
   buffer handled here is that long, so it is the same as "len-exceeds-buffer".

   Universal tags used: 02 INTEGER, 03 BIT STRING, 04 OCTET STRING, 05 NULL, 06 OID,
   30 SEQUENCE (constructed), A0+n context-specific constructed [n].
   High-tag-number form (tag octet & 1F = 1F) is rejected ("tag-high-form"). *)
EXTENDS Naturals, Sequences

T_INT == 2
T_BITS == 3
T_OCTETS == 4
T_NULL == 5
T_OID == 6
T_SEQ == 48
T_CTX0 == 160
T_CTX1 == 161

IsByteSeq(s) == \A i \in 1..Len(s) : s[i] \in 0..255

\* ---------------------------------------------------------------- length octets
LenErr(e) == [ok |-> FALSE, err |-> e, len |-> 0, nx |-> 0]

\* big-endian value of s[p..p+k-1], k <= 3
BE(s, p, k) == IF k = 1 THEN s[p]
               ELSE IF k = 2 THEN s[p] * 256 + s[p + 1]
               ELSE s[p] * 65536 + s[p + 1] * 256 + s[p + 2]

\* length octets starting at s[p]; bytes up to index hi are available
ReadLen(s, p, hi) ==
    IF p > hi THEN LenErr("len-missing")
    ELSE LET b == s[p] IN
      IF b < 128 THEN [ok |-> TRUE, err |-> "", len |-> b, nx |-> p + 1]
      ELSE IF b = 128 THEN LenErr("len-indefinite")
      ELSE LET k == b - 128 IN
        IF p + k > hi THEN LenErr("len-truncated")
        ELSE IF s[p + 1] = 0 THEN LenErr("len-nonminimal")
        ELSE IF k = 1 /\ s[p + 1] < 128 THEN LenErr("len-nonminimal")
        ELSE IF k > 3 THEN LenErr("len-huge")
        ELSE [ok |-> TRUE, err |-> "", len |-> BE(s, p + 1, k), nx |-> p + 1 + k]

\* the unique DER length octets of n (n < 2^24)
EncLen(n) == IF n < 128 THEN <<n>>
             ELSE IF n < 256 THEN <<129, n>>
             ELSE IF n < 65536 THEN <<130, n \div 256, n % 256>>
             ELSE <<131, n \div 65536, (n \div 256) % 256, n % 256>>

\* ---------------------------------------------------------------- one TLV
\* tag, content window cs..ce (ce = cs-1 for empty content), nx = index after the TLV
TlvErr(e) == [ok |-> FALSE, err |-> e, tag |-> 0, cs |-> 0, ce |-> 0, nx |-> 0]

Tlv(s, p, hi) ==
    IF p > hi THEN TlvErr("tlv-missing")
    ELSE IF (s[p] % 32) = 31 THEN TlvErr("tag-high-form")
    ELSE LET L == ReadLen(s, p + 1, hi) IN
      IF ~L.ok THEN TlvErr(L.err)
      ELSE IF L.nx + L.len - 1 > hi THEN TlvErr("len-exceeds-buffer")
      ELSE [ok |-> TRUE, err |-> "", tag |-> s[p], cs |-> L.nx, ce |-> L.nx + L.len - 1, nx |-> L.nx + L.len]

Constructed(tag) == ((tag \div 32) % 2) = 1
Content(s, t) == SubSeq(s, t.cs, t.ce)
CLen(t) == t.ce - t.cs + 1

\* ---------------------------------------------------------------- primitive contents
Pow2(k) == IF k = 0 THEN 1 ELSE IF k = 1 THEN 2 ELSE IF k = 2 THEN 4 ELSE IF k = 3 THEN 8
           ELSE IF k = 4 THEN 16 ELSE IF k = 5 THEN 32 ELSE IF k = 6 THEN 64 ELSE 128

\* INTEGER: at least one octet, two's complement, minimal (8.3.2)
IntOk(s, cs, ce) ==
    /\ ce >= cs
    /\ (ce > cs) => /\ ~(s[cs] = 0 /\ s[cs + 1] < 128)
                    /\ ~(s[cs] = 255 /\ s[cs + 1] >= 128)
IntNonNeg(s, cs, ce) == IntOk(s, cs, ce) /\ s[cs] < 128
\* magnitude octets of a non-negative INTEGER (the sign octet 00 removed)
IntMag(s, cs, ce) == IF ce > cs /\ s[cs] = 0 THEN SubSeq(s, cs + 1, ce) ELSE SubSeq(s, cs, ce)
IntIsSmall(s, t, v) == t.ce = t.cs /\ s[t.cs] = v           \* INTEGER with the one-octet value v < 128

\* BIT STRING, primitive: first octet = number of unused bits 0..7, those bits zero (11.2)
BitsOk(s, cs, ce) ==
    /\ ce >= cs
    /\ s[cs] <= 7
    /\ (s[cs] > 0) => (ce > cs /\ (s[ce] % Pow2(s[cs])) = 0)

\* OID: non-empty, base-128 subidentifiers, none starts with 0x80, last octet ends one (8.19)
OidOk(s, cs, ce) ==
    /\ ce >= cs
    /\ s[ce] < 128
    /\ \A i \in cs..ce : (s[i] = 128) => (i > cs /\ s[i - 1] >= 128)

PrimOk(s, t) ==
    IF t.tag = T_INT THEN IntOk(s, t.cs, t.ce)
    ELSE IF t.tag = T_BITS THEN BitsOk(s, t.cs, t.ce)
    ELSE IF t.tag = T_OID THEN OidOk(s, t.cs, t.ce)
    ELSE IF t.tag = T_NULL THEN t.ce < t.cs
    ELSE TRUE                                              \* OCTET STRING and others: any content

\* ---------------------------------------------------------------- trees
\* a constructed TLV's content is a list of TLVs that fills it exactly
RECURSIVE WfList(_, _, _), WfNode(_, _)
WfNode(s, t) == IF Constructed(t.tag) THEN WfList(s, t.cs, t.ce) ELSE PrimOk(s, t)
WfList(s, p, hi) ==
    IF p = hi + 1 THEN TRUE
    ELSE LET t == Tlv(s, p, hi) IN
         IF ~t.ok THEN FALSE ELSE IF ~WfNode(s, t) THEN FALSE ELSE WfList(s, t.nx, hi)

\* The decoder of one complete DER value occupying s[1..hi] (hi = Len(s) for the whole
\* string; hi < Len(s) = "only the first hi bytes were received").  Total verdict.
DecodeWin(s, hi) ==
    LET t == Tlv(s, 1, hi) IN
    IF ~t.ok THEN t.err
    ELSE IF t.nx # hi + 1 THEN "trailing-data"
    ELSE IF ~WfNode(s, t) THEN "malformed-content"
    ELSE "ok"
DecodeTop(s) == DecodeWin(s, Len(s))
\* deliberately wrong variant (self-test): a decoder that ignores what follows the value
DecodeLenientWin(s, hi) ==
    LET t == Tlv(s, 1, hi) IN
    IF ~t.ok THEN t.err ELSE IF ~WfNode(s, t) THEN "malformed-content" ELSE "ok"

\* abstract tree of a well-formed value: uniform records [tag, val, kids]
RECURSIVE TreeList(_, _, _), TreeOf(_, _)
TreeOf(s, t) == IF Constructed(t.tag) THEN [tag |-> t.tag, val |-> <<>>, kids |-> TreeList(s, t.cs, t.ce)]
                ELSE [tag |-> t.tag, val |-> Content(s, t), kids |-> <<>>]
TreeList(s, p, hi) == IF p >= hi + 1 THEN <<>>
                      ELSE LET t == Tlv(s, p, hi) IN <<TreeOf(s, t)>> \o TreeList(s, t.nx, hi)
DecodeTree(s) == TreeOf(s, Tlv(s, 1, Len(s)))             \* defined when DecodeTop(s) = "ok"

\* ---------------------------------------------------------------- encoders
EncTlv(tag, content) == <<tag>> \o EncLen(Len(content)) \o content
RECURSIVE Concat(_)
Concat(list) == IF list = <<>> THEN <<>> ELSE Head(list) \o Concat(Tail(list))
EncSeq(parts) == EncTlv(T_SEQ, Concat(parts))
EncCtx(n, content) == EncTlv(160 + n, content)
EncOctets(b) == EncTlv(T_OCTETS, b)
EncBits(unused, b) == EncTlv(T_BITS, <<unused>> \o b)
EncOidBody(body) == EncTlv(T_OID, body)
\* non-negative INTEGER from big-endian magnitude octets (any number of leading zeros)
RECURSIVE StripZeros(_)
StripZeros(m) == IF Len(m) > 1 /\ m[1] = 0 THEN StripZeros(Tail(m)) ELSE m
EncUInt(mag) == LET m == IF mag = <<>> THEN <<0>> ELSE StripZeros(mag)
                IN  EncTlv(T_INT, IF m[1] >= 128 THEN <<0>> \o m ELSE m)
EncSmallInt(v) == <<T_INT, 1, v>>                          \* v < 128

\* OID from arcs: first octet 40*a1 + a2, then base 128 with continuation bits
Base128(n) == IF n < 128 THEN <<n>>
              ELSE IF n < 16384 THEN <<128 + (n \div 128), n % 128>>
              ELSE IF n < 2097152 THEN <<128 + (n \div 16384), 128 + ((n \div 128) % 128), n % 128>>
              ELSE <<128 + (n \div 2097152), 128 + ((n \div 16384) % 128), 128 + ((n \div 128) % 128), n % 128>>
RECURSIVE ArcsFrom(_, _)
ArcsFrom(arcs, i) == IF i > Len(arcs) THEN <<>> ELSE Base128(arcs[i]) \o ArcsFrom(arcs, i + 1)
OidBody(arcs) == Base128(40 * arcs[1] + arcs[2]) \o ArcsFrom(arcs, 3)
EncOid(arcs) == EncOidBody(OidBody(arcs))

RECURSIVE EncTree(_), EncTrees(_)
EncTree(t) == IF Constructed(t.tag) THEN EncTlv(t.tag, EncTrees(t.kids)) ELSE EncTlv(t.tag, t.val)
EncTrees(ts) == IF ts = <<>> THEN <<>> ELSE EncTree(Head(ts)) \o EncTrees(Tail(ts))
=============================================================================
