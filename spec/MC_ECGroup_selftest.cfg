\* self-test: the wrong law must be refuted (expected result: invariant violated)
INIT Init
NEXT Next
CONSTANTS P=17 A=2 B=2 GX=0 GY=6 N=19 H=1
INVARIANT BadLawClosed
INVARIANT BadLawAssoc
