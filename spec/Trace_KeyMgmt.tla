---------------------------- MODULE Trace_KeyMgmt ----------------------------
(* C07, stateful C->S: histories of file creations and writes recorded through the registry seams
   (RNG draws, generated ephemeral keys).  The spec state is the set of nonces handed out so far.
     newfile  explicit(0/1), draws: sequence of byte strings drawn during Bec2File(...), key
     pack     ephs: ephemeral public points generated during one to_binary/write_file, necc: ECC blocks written,
              key_before, key_after (session key of the object before / after the write)
   One history per group (grp); events of a group are consumed in order. *)
EXTENDS Naturals, Sequences, FiniteSets, Json, IOUtils, TLC
Trace == ndJsonDeserialize(IOEnv.TRACE_FILE)
VARIABLES i, seen, grp
NewFileVerdict(ev, s) ==
    IF ev.explicit = 1 THEN (IF Len(ev.draws) # 0 THEN "explicit-key-but-rng-drawn" ELSE IF ev.key # ev.given THEN "explicit-key-not-used" ELSE "ok")
    ELSE IF Len(ev.draws) # 1 THEN "not-exactly-one-draw"
    ELSE IF Len(ev.draws[1]) # 16 THEN "draw-not-16-bytes"
    ELSE IF ev.key # ev.draws[1] THEN "session-key-is-not-the-drawn-nonce"
    ELSE IF ev.key \in s THEN "nonce-reused"
    ELSE "ok"
PackVerdict(ev, s) ==
    IF Len(ev.ephs) # ev.necc THEN "not-one-ephemeral-per-ecc-block"
    ELSE IF \E a \in 1..Len(ev.ephs) : ev.ephs[a] \in s THEN "ephemeral-reused"
    ELSE IF \E a, b \in 1..Len(ev.ephs) : a # b /\ ev.ephs[a] = ev.ephs[b] THEN "ephemeral-reused"
    ELSE IF ev.key_before # ev.key_after THEN "session-key-changed-by-write"
    ELSE IF Len(ev.draws) # 0 THEN "rng-drawn-during-write"
    ELSE "ok"
Verdict(ev, s) == IF ev.op = "newfile" THEN NewFileVerdict(ev, s) ELSE IF ev.op = "pack" THEN PackVerdict(ev, s) ELSE "unknown-op"
Adds(ev) == IF ev.op = "newfile" THEN {ev.draws[a] : a \in 1..Len(ev.draws)} ELSE {ev.ephs[a] : a \in 1..Len(ev.ephs)}
Init == i = 1 /\ seen = {} /\ grp = 0
Next == /\ i <= Len(Trace)
        /\ LET ev == Trace[i]
               s  == IF ev.grp = grp THEN seen ELSE {}          \* a new history starts with an empty nonce set
               v  == Verdict(ev, s)
           IN  /\ IF v = "ok" THEN TRUE ELSE PrintT(<<"REJ", ev.tid, v, "">>)
               /\ seen' = s \cup Adds(ev) /\ grp' = ev.grp
        /\ i' = i + 1
        /\ IF i = Len(Trace) THEN PrintT(<<"DONE", i>>) ELSE TRUE
\* the nonce set only grows within a history
Monotone == [][(grp' = grp) => seen \subseteq seen']_<<i, seen, grp>>
=============================================================================
