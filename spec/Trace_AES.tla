------------------------------ MODULE Trace_AES ------------------------------
(* C->S for the bundled block cipher (pyaes.AES).  Events (ndjson):
     tab     name, x, v      one entry of a class-level lookup table: S, Si, T1..T8, U1..U4 (v = the 32-bit word as
                             4 bytes, most significant first; S/Si/rcon: one byte) - judged against the GF(2^8)
                             DEFINITIONS of AESDef (S-box = affine map of the field inverse, T/U = MixColumns /
                             InvMixColumns multiples, rcon = powers of x); exhaustive over all 14 x 256 + 30 entries
     tablen  name, n         table length (256; rcon 30)
     blk     key, pt, ct, dt pyaes.AES(key).encrypt(pt) = ct, .decrypt(ct) = dt: ct = FIPS-197 Cipher, InvCipher(ct) = pt = dt
             arg, alias      The harness keeps the RETURNED OBJECTS of all calls of a history (several blocks on one cipher
                             object) and reads them only after the last call: ct/dt are what those objects hold THEN, arg is
                             what the argument object holds then (= pt: arguments are not modified), alias = 1 iff a result
                             is the same mutable object as another result or as an argument (must be 0)
     dblk    key, ct, pt     pyaes.AES(key).decrypt(ct) = pt on an arbitrary block: pt = InvCipher(ct), Cipher(pt) = ct
     oblk    key, pt, ct     ORACLE: `openssl enc -aes-N-ecb -nopad` says ct: AES.tla itself must agree (both directions)
   key: 16, 24 or 32 bytes.  Total verdict, see BUILDERS.md. *)
EXTENDS AES, AESDef, Json, IOUtils, TLC
Trace == ndJsonDeserialize(IOEnv.TRACE_FILE)
VARIABLE i

RotN(w, n) == IF n = 0 THEN w ELSE IF n = 1 THEN RotR(w) ELSE IF n = 2 THEN RotR(RotR(w)) ELSE RotR(RotR(RotR(w)))
TabVerdict(ev) ==
    LET x == ev.x  v == ev.v  nm == ev.name IN
    IF nm = "rcon" THEN (IF x \in 0..29 /\ v = <<RconSeq(30)[x + 1]>> THEN "ok" ELSE "table-rcon")
    ELSE IF x \notin 0..255 THEN "table-index"
    ELSE IF nm = "S"  THEN (IF v = <<SBoxDef(x)>> THEN "ok" ELSE "table-S")
    ELSE IF nm = "Si" THEN (IF Len(v) = 1 /\ v[1] \in 0..255 /\ SBoxDef(v[1]) = x THEN "ok" ELSE "table-Si")
    ELSE IF nm \in {"T1", "T2", "T3", "T4"} THEN
        LET n == IF nm = "T1" THEN 0 ELSE IF nm = "T2" THEN 1 ELSE IF nm = "T3" THEN 2 ELSE 3
        IN  IF v = RotN(T1Def(SBoxDef(x)), n) THEN "ok" ELSE "table-" \o nm
    ELSE IF nm \in {"T5", "T6", "T7", "T8"} THEN
        LET n == IF nm = "T5" THEN 0 ELSE IF nm = "T6" THEN 1 ELSE IF nm = "T7" THEN 2 ELSE 3
            s == InvSBox[x + 1]                \* candidate from the literal table, confirmed by the definition below
        IN  IF SBoxDef(s) = x /\ v = RotN(T5Def(s), n) THEN "ok" ELSE "table-" \o nm
    ELSE IF nm \in {"U1", "U2", "U3", "U4"} THEN
        LET n == IF nm = "U1" THEN 0 ELSE IF nm = "U2" THEN 1 ELSE IF nm = "U3" THEN 2 ELSE 3
        IN  IF v = RotN(U1Def(x), n) THEN "ok" ELSE "table-" \o nm
    ELSE "table-unknown"

KeyOk(k) == Len(k) \in {16, 24, 32}
BlkVerdict(ev) ==
    IF ~KeyOk(ev.key) \/ Len(ev.pt) # 16 THEN "bad-event"
    ELSE LET rk == RoundKeys(ev.key)  c == EncBlockRK(rk, ev.pt) IN
         IF ev.ct # c THEN "encrypt-differs-from-fips197"
         ELSE IF ev.dt # ev.pt THEN "decrypt-does-not-invert-encrypt"
         ELSE IF DecBlockRK(rk, c) # ev.pt THEN "spec-inverse-cipher"
         ELSE IF ev.arg # ev.pt THEN "argument-modified"
         ELSE IF ev.alias # 0 THEN "result-object-shared-between-calls"
         ELSE "ok"
DBlkVerdict(ev) ==
    IF ~KeyOk(ev.key) \/ Len(ev.ct) # 16 THEN "bad-event"
    ELSE LET rk == RoundKeys(ev.key)  p == DecBlockRK(rk, ev.ct) IN
         IF ev.pt # p THEN "decrypt-differs-from-fips197"
         ELSE IF EncBlockRK(rk, p) # ev.ct THEN "spec-cipher-of-inverse"
         ELSE IF ev.arg # ev.ct THEN "argument-modified"
         ELSE IF ev.alias # 0 THEN "result-object-shared-between-calls"
         ELSE "ok"
OBlkVerdict(ev) ==
    IF ~KeyOk(ev.key) \/ Len(ev.pt) # 16 THEN "bad-event"
    ELSE LET rk == RoundKeys(ev.key) IN
         IF EncBlockRK(rk, ev.pt) # ev.ct THEN "spec-differs-from-openssl"
         ELSE IF DecBlockRK(rk, ev.ct) # ev.pt THEN "spec-inverse-differs-from-openssl"
         ELSE "ok"
Verdict(ev) ==
    IF ev.op = "tab" THEN TabVerdict(ev)
    ELSE IF ev.op = "tablen" THEN (IF ev.n = (IF ev.name = "rcon" THEN 30 ELSE 256) THEN "ok" ELSE "table-length")
    ELSE IF ev.op = "blk" THEN BlkVerdict(ev)
    ELSE IF ev.op = "dblk" THEN DBlkVerdict(ev)
    ELSE IF ev.op = "oblk" THEN OBlkVerdict(ev)
    ELSE "unknown-op"
Init == i = 1
Next == /\ i <= Len(Trace)
        /\ LET v == Verdict(Trace[i]) IN IF v = "ok" THEN TRUE ELSE PrintT(<<"REJ", Trace[i].tid, v, "">>)
        /\ i' = i + 1
        /\ IF i = Len(Trace) THEN PrintT(<<"DONE", i>>) ELSE TRUE
=============================================================================
