\* self-test: the verifier with u1/u2 exchanged must be refuted (expected result: invariant violated)
INIT Init
NEXT Next
CONSTANTS P=17 A=2 B=2 GX=0 GY=6 N=19 H=1
INVARIANT BadExactAccept
