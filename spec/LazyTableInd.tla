---------------------------- MODULE LazyTableInd ----------------------------
(* Inductive-invariant argument for LazyTable.tla (lazily built generator table and
   in-place rescaling of ecdsa/ellipticcurve.py, check C20), in the form Apalache 0.58
   can check (see LazyTableInd.md; run by harness/apalache.py).

   LazyTable.tla is not typeable by Apalache (a function [j \in 1..N |-> j] used as a
   sequence; untyped constants), so this module RESTATES it: the actions are copied
   verbatim; only the three table constructors are written differently,
       Prefix(k) = SubSeq(Ramp, 1, k)          instead of  SubSeq([j \in 1..N |-> j], 1, k)
       the all-wrong table = SubSeq(Zeros, 1, N)  instead of  SubSeq([j \in 1..N |-> 0], 1, N)
   with Ramp = <<1, .., KMax>> and Zeros = <<0, .., 0>> literal (KMax = 32; N <= KMax).
   The restatement is not trusted: MC_LazyTableIndEq.tla has TLC check, on every state
   of a small alphabet (reachable or not) and on the reachable states, that the actions
   are the same relations, the properties the same predicates, Init the same.

   What the model fixes: ONE builder thread (statement by statement, interruptible at every
   statement) and reader operations that are complete (atomic) - any number of them, by any
   number of reader threads, in any order.  There is no thread-count parameter.
   N (table length) is a parameter: either fixed in the cfg, or - CInit* below - ANY value
   in 1..KMax in one run (Apalache treats N symbolically). *)
EXTENDS Integers, Sequences

CONSTANTS
    \* @type: Int;
    N,
    \* @type: Bool;
    EARLY_PUBLISH,
    \* @type: Bool;
    SPLIT_ASSIGN,
    \* @type: Bool;
    TORN_READ,
    \* @type: Str;
    LOCKED

VARIABLES
    \* @type: Str;
    mode,
    \* @type: Str;
    bpc,
    \* @type: Seq(Int);
    loc,
    \* @type: Seq(Int);
    pub,
    \* @type: Bool;
    shared,
    \* @type: <<Str, Str, Str>>;
    coords,
    \* @type: <<Str, Str, Str>>;
    tmp,
    \* @type: Bool;
    rdone,
    \* @type: { op: Str, seen: Int, ok: Bool };
    obs,
    \* @type: Str;
    lk

vars == <<mode, bpc, loc, pub, shared, coords, tmp, rdone, obs, lk>>

KMax == 32
\* @type: Seq(Int);
Ramp  == <<1, 2, 3, 4, 5, 6, 7, 8, 9, 10, 11, 12, 13, 14, 15, 16,
           17, 18, 19, 20, 21, 22, 23, 24, 25, 26, 27, 28, 29, 30, 31, 32>>
\* @type: Seq(Int);
Zeros == <<0, 0, 0, 0, 0, 0, 0, 0, 0, 0, 0, 0, 0, 0, 0, 0,
           0, 0, 0, 0, 0, 0, 0, 0, 0, 0, 0, 0, 0, 0, 0, 0>>

\* (harness/apalache.py regenerates the two literals for another KMax; every run re-checks them)
LiteralsOK == /\ Len(Ramp) = KMax /\ \A j \in DOMAIN Ramp : Ramp[j] = j
              /\ Len(Zeros) = KMax /\ \A j \in DOMAIN Zeros : Zeros[j] = 0

(* constants: the cfg fixes them, or one of these (--cinit=...) leaves N symbolic: ANY table length in 1..KMax
   (and, CInitFaithful, both faithful lock variants) in one run *)
CInitFaithful  == N \in 1..KMax /\ EARLY_PUBLISH = FALSE /\ SPLIT_ASSIGN = FALSE /\ TORN_READ = FALSE /\ LOCKED \in {"none", "finally"}
CInitNone      == N \in 1..KMax /\ EARLY_PUBLISH = FALSE /\ SPLIT_ASSIGN = FALSE /\ TORN_READ = FALSE /\ LOCKED = "none"
CInitFinally   == N \in 1..KMax /\ EARLY_PUBLISH = FALSE /\ SPLIT_ASSIGN = FALSE /\ TORN_READ = FALSE /\ LOCKED = "finally"
CInitEarly     == N \in 1..KMax /\ EARLY_PUBLISH = TRUE  /\ SPLIT_ASSIGN = FALSE /\ TORN_READ = FALSE /\ LOCKED = "none"
CInitSplit     == N \in 1..KMax /\ EARLY_PUBLISH = FALSE /\ SPLIT_ASSIGN = TRUE  /\ TORN_READ = FALSE /\ LOCKED = "none"
CInitTorn      == N \in 1..KMax /\ EARLY_PUBLISH = FALSE /\ SPLIT_ASSIGN = FALSE /\ TORN_READ = TRUE  /\ LOCKED = "none"
CInitNoFinally == N \in 1..KMax /\ EARLY_PUBLISH = FALSE /\ SPLIT_ASSIGN = FALSE /\ TORN_READ = FALSE /\ LOCKED = "nofinally"

\* @type: Int => Seq(Int);
Prefix(k) == SubSeq(Ramp, 1, k)
Full == Prefix(N)
\* @type: <<Str, Str, Str>>;
Old == <<"X", "Y", "Z">>
\* @type: <<Str, Str, Str>>;
New == <<"x", "y", "one">>
\* @type: <<Str, Str, Str>>;
Unknown == <<"?", "?", "one">>
\* @type: <<Str, Str, Str>>;
NotRead == <<"-", "-", "-">>
Affine(c) == IF c = Old \/ c = New THEN "P" ELSE "mixed"
Scaled(c) == IF Affine(c) = "P" THEN New ELSE Unknown
TableFrom(c) == IF Affine(c) = "P" THEN Full ELSE SubSeq(Zeros, 1, N)

-----------------------------------------------------------------------------
(* state predicates of LazyTable.tla *)
PubEmptyOrComplete == pub = <<>> \/ pub = Full
CoordsOldOrNew     == coords \in {Old, New}
AloneOK            == ~rdone => /\ (pub = <<>> \/ (loc = Full /\ pub = loc))
                                /\ (shared => pub = loc)
                                /\ (shared /\ N > 0 => loc = Full)
\* LazyTable: \E k \in 0..N : loc = Prefix(k)   (the same thing without a range that depends on N)
LocIsPrefix        == Len(loc) <= N /\ loc = Prefix(Len(loc))
TableComplete      == pub = Full
IsScaled           == coords = New

EffectTo(l2, p2, s2, c2) ==
    \/ l2 = loc /\ p2 = pub /\ s2 = shared /\ c2 = coords
    \/ Len(loc) < N /\ l2 = Append(loc, Len(loc) + 1) /\ p2 = pub /\ s2 = shared /\ c2 = coords
    \/ loc = Full /\ l2 = loc /\ p2 = loc /\ s2 = TRUE /\ c2 = coords
    \/ coords = Old /\ c2 = New /\ l2 = loc /\ p2 = pub /\ s2 = shared

-----------------------------------------------------------------------------
Modes == {"table", "scale", "jtable"}
Init == /\ mode \in Modes
        /\ bpc = IF mode = "scale" THEN "s_read" ELSE IF LOCKED = "none" THEN "p_test" ELSE "p_lock"
        /\ lk = "free"
        /\ loc = <<>> /\ pub = <<>> /\ shared = FALSE
        /\ coords = IF mode = "table" THEN New ELSE Old
        /\ tmp = NotRead
        /\ rdone = FALSE
        /\ obs = [op |-> "none", seen |-> 0, ok |-> TRUE]

Go(l) == bpc' = l
PEnd == IF LOCKED = "none" THEN "done" ELSE "p_unlock"
AppendLoc == /\ loc' = Append(loc, IF Affine(tmp) = "P" THEN Len(loc) + 1 ELSE 0)
             /\ pub' = IF shared THEN loc' ELSE pub

P_Test    == bpc = "p_test" /\ Go(IF pub # <<>> THEN PEnd ELSE "p_new")
             /\ UNCHANGED <<loc, pub, shared, coords, tmp>>
P_New     == bpc = "p_new" /\ Go("p_coords") /\ loc' = <<>>
             /\ (IF EARLY_PUBLISH THEN pub' = <<>> /\ shared' = TRUE ELSE UNCHANGED <<pub, shared>>)
             /\ UNCHANGED <<coords, tmp>>
P_Coords  == bpc = "p_coords"
             /\ (IF TORN_READ THEN Go("p_coords2") /\ tmp' = <<tmp[1], tmp[2], coords[3]>>
                              ELSE Go("p_first") /\ tmp' = coords)
             /\ UNCHANGED <<loc, pub, shared, coords>>
P_Coords2 == bpc = "p_coords2" /\ Go("p_first") /\ tmp' = <<coords[1], coords[2], tmp[3]>>
             /\ UNCHANGED <<loc, pub, shared, coords>>
P_First   == bpc = "p_first" /\ Go("p_while") /\ AppendLoc
             /\ UNCHANGED <<shared, coords, tmp>>
P_While   == bpc = "p_while" /\ Go(IF Len(loc) < N THEN "p_double" ELSE "p_publish")
             /\ UNCHANGED <<loc, pub, shared, coords, tmp>>
P_Double  == bpc = "p_double" /\ Go("p_append")
             /\ UNCHANGED <<loc, pub, shared, coords, tmp>>
P_Append  == bpc = "p_append" /\ Go("p_while") /\ AppendLoc
             /\ UNCHANGED <<shared, coords, tmp>>
P_Publish == bpc = "p_publish" /\ Go(PEnd) /\ pub' = loc /\ shared' = TRUE
             /\ UNCHANGED <<loc, coords, tmp>>

S_Read    == bpc = "s_read" /\ Go("s_test") /\ tmp' = coords
             /\ UNCHANGED <<loc, pub, shared, coords>>
S_Test    == bpc = "s_test" /\ Go(IF tmp[3] = "one" THEN "done" ELSE "s_compute")
             /\ UNCHANGED <<loc, pub, shared, coords, tmp>>
S_Compute == bpc = "s_compute" /\ Go(IF SPLIT_ASSIGN THEN "s_ax" ELSE "s_assign")
             /\ UNCHANGED <<loc, pub, shared, coords, tmp>>
S_Assign  == bpc = "s_assign" /\ Go("done") /\ coords' = Scaled(tmp)
             /\ UNCHANGED <<loc, pub, shared, tmp>>
S_AX      == bpc = "s_ax" /\ Go("s_ay") /\ coords' = <<Scaled(tmp)[1], coords[2], coords[3]>> /\ UNCHANGED <<loc, pub, shared, tmp>>
S_AY      == bpc = "s_ay" /\ Go("s_az") /\ coords' = <<coords[1], Scaled(tmp)[2], coords[3]>> /\ UNCHANGED <<loc, pub, shared, tmp>>
S_AZ      == bpc = "s_az" /\ Go("done") /\ coords' = <<coords[1], coords[2], Scaled(tmp)[3]>> /\ UNCHANGED <<loc, pub, shared, tmp>>

P_Lock    == bpc = "p_lock" /\ lk = "free" /\ lk' = "A" /\ Go("p_test") /\ UNCHANGED <<loc, pub, shared, coords, tmp>>
P_Unlock  == bpc = "p_unlock" /\ lk' = "free" /\ Go("done") /\ UNCHANGED <<loc, pub, shared, coords, tmp>>

Builder == /\ \/ /\ \/ P_Test \/ P_New \/ P_Coords \/ P_Coords2 \/ P_First \/ P_While \/ P_Double \/ P_Append \/ P_Publish
                    \/ S_Read \/ S_Test \/ S_Compute \/ S_Assign \/ S_AX \/ S_AY \/ S_AZ
                 /\ UNCHANGED lk
              \/ P_Lock \/ P_Unlock
           /\ UNCHANGED <<mode, rdone, obs>>

Interrupt == /\ bpc \notin {"done", "aborted"}
             /\ bpc' = "aborted"
             /\ lk' = IF LOCKED = "finally" THEN "free" ELSE lk
             /\ UNCHANGED <<mode, loc, pub, shared, coords, tmp, rdone, obs>>

RdMul == /\ mode \in {"table", "jtable"}
         /\ (LOCKED = "none" \/ pub # <<>> \/ lk = "free")
         /\ LET t == IF pub = <<>> THEN TableFrom(coords) ELSE pub
            IN /\ pub' = t
               /\ shared' = IF pub = <<>> THEN FALSE ELSE shared
               /\ obs' = [op |-> "mul", seen |-> Len(pub), ok |-> t = Full]
         /\ rdone' = TRUE
         /\ UNCHANGED <<mode, bpc, loc, coords, tmp, lk>>
RdEq  == /\ obs' = [op |-> "eq", seen |-> Len(pub), ok |-> Affine(coords) = "P"]
         /\ rdone' = TRUE
         /\ UNCHANGED <<mode, bpc, loc, pub, shared, coords, tmp, lk>>
RdScaleMul == /\ mode \in {"scale", "jtable"}
              /\ coords' = IF coords[3] = "one" THEN coords ELSE Scaled(coords)
              /\ obs' = [op |-> "smul", seen |-> Len(pub), ok |-> Affine(coords') = "P"]
              /\ rdone' = TRUE
              /\ UNCHANGED <<mode, bpc, loc, pub, shared, tmp, lk>>
Reader == RdMul \/ RdEq \/ RdScaleMul

Finished == bpc \in {"done", "aborted"} /\ UNCHANGED vars
Next == Builder \/ Interrupt \/ Reader \/ Finished

-----------------------------------------------------------------------------
BLabels == {"p_test", "p_new", "p_coords", "p_coords2", "p_first", "p_while", "p_double", "p_append", "p_publish",
            "s_read", "s_test", "s_compute", "s_assign", "s_ax", "s_ay", "s_az", "done",
            "p_lock", "p_unlock", "aborted"}
TypeOK == /\ mode \in Modes
          /\ bpc \in BLabels
          /\ lk \in {"free", "A"}
          /\ Len(loc) <= N /\ Len(pub) <= N
          /\ shared \in BOOLEAN /\ rdone \in BOOLEAN
          /\ obs.ok \in BOOLEAN
ReaderOK == obs.ok /\ obs.seen \in {0, N}
FinalOK == bpc = "done" => (mode # "scale" => TableComplete) /\ (mode = "scale" => IsScaled)
(* the two action properties of LazyTable.tla, [][A]_vars, as action invariants A *)
StepsAreEffectsAct   == bpc' # bpc => EffectTo(loc', pub', shared', coords')
TableNeverShrinksAct == Len(pub') >= Len(pub)
(* the safety half of NeverBlockedForever == []<>(lk = "free"): once the builder's operation is over
   (returned or abandoned) the lock is free.  (The other half, BuilderFinishes, is liveness: TLC.) *)
LockFreeWhenOver == bpc \in {"done", "aborted"} => lk = "free"

-----------------------------------------------------------------------------
(* THE INDUCTIVE INVARIANT (for the faithful variant: switches off, LOCKED "none" or "finally") *)
\* where the builder is while it owns the table lock
InLock   == {"p_test", "p_new", "p_coords", "p_coords2", "p_first", "p_while", "p_double", "p_append", "p_publish", "p_unlock"}
\* statements of _maybe_precompute after the read of the triple / of scale() after it
UsesTmpP == {"p_first", "p_while", "p_double", "p_append", "p_publish"}
UsesTmpS == {"s_test", "s_compute", "s_assign"}

\* K1  the coordinate triple is the old or the new one, never a mixture
Coords == coords \in {Old, New}
\* K2  the builder's list is a correct prefix, the published one is empty or complete
Lists  == LocIsPrefix /\ PubEmptyOrComplete
\* K3  which code runs: scale() on a non-generator, _maybe_precompute() on a generator; lock labels only with a lock;
\*     the extra labels of a deviating variant only in that variant (so that the self-tests fail on a conjunct that
\*     says something - Coords, Tmp - and not on a label)
Roles  == /\ mode = "scale" => bpc \in {"s_read", "s_test", "s_compute", "s_assign", "done", "aborted"}
                                       \cup (IF SPLIT_ASSIGN THEN {"s_ax", "s_ay", "s_az"} ELSE {})
          /\ mode # "scale" => bpc \in {"p_lock", "p_test", "p_new", "p_coords", "p_first", "p_while", "p_double", "p_append",
                                        "p_publish", "p_unlock", "done", "aborted"}
                                       \cup (IF TORN_READ THEN {"p_coords2"} ELSE {})
          /\ LOCKED = "none" => bpc \notin {"p_lock", "p_unlock"}
\* K4  the triple the builder works with was read in one piece (and, in scale(), "already affine" stays true)
Tmp    == /\ bpc \in UsesTmpP \cup UsesTmpS => tmp \in {Old, New}
          /\ bpc \in UsesTmpS /\ tmp = New => coords = New
\* K5  progress of the loop: nothing appended before p_first, at least one entry after, room for the next append,
\*     complete at the publication
Loop   == /\ bpc \in {"p_lock", "p_test", "p_new", "p_coords", "p_first"} => loc = <<>>
          /\ bpc \in {"p_while", "p_double", "p_append"} => Len(loc) >= 1
          /\ bpc \in {"p_double", "p_append"} => Len(loc) < N
          /\ bpc = "p_publish" => loc = Full
\* K6  the builder's list is the published object only after its publication statement, and then it is complete
Shared == shared => pub = loc /\ loc = Full /\ bpc \in {"p_unlock", "done", "aborted"}
\* K7  a table that exists before any reader ran is the builder's
Alone  == ~rdone => pub = <<>> \/ shared
\* K8  a finished builder leaves a complete table / an affine point
Final  == /\ bpc \in {"p_unlock", "done"} /\ mode # "scale" => pub = Full
          /\ bpc = "done" /\ mode = "scale" => coords = New
\* K9  the lock is held exactly while the builder is between acquire and release
Lock   == /\ LOCKED = "none" => lk = "free"
          /\ LOCKED # "none" => (lk = "A" <=> bpc \in InLock /\ mode # "scale")
\* K10 what the last reader operation saw
Seen   == ReaderOK

IndInv == TypeOK /\ Coords /\ Lists /\ Roles /\ Tmp /\ Loop /\ Shared /\ Alone /\ Final /\ Lock /\ Seen

(* an arbitrary state: every variable from its whole (finite) alphabet; lists are prefixes of Ramp - which is the
   conjunct Lists of IndInv, so no state that satisfies IndInv is left out *)
C1 == {"X", "x", "?", "-"}
C2 == {"Y", "y", "?", "-"}
C3 == {"Z", "one", "-"}
Arbitrary == /\ mode \in Modes
             /\ bpc \in BLabels
             /\ lk \in {"free", "A"}
             /\ \E k \in 0..KMax : loc = Prefix(k)
             /\ \E k \in 0..KMax : pub = Prefix(k)
             /\ shared \in BOOLEAN /\ rdone \in BOOLEAN
             /\ coords \in C1 \X C2 \X C3
             /\ tmp \in C1 \X C2 \X C3
             /\ obs \in [op : {"none", "mul", "eq", "smul"}, seen : 0..KMax, ok : BOOLEAN]
IndInit == Arbitrary /\ IndInv

(* what the invariant implies: state predicates (--length=0) and action invariants (--length=1) *)
Safety == /\ ReaderOK /\ PubEmptyOrComplete /\ CoordsOldOrNew /\ AloneOK /\ LocIsPrefix /\ FinalOK /\ LockFreeWhenOver
          /\ LiteralsOK
ActSafety == StepsAreEffectsAct /\ TableNeverShrinksAct

(* self-test of the implication: without the conjunct about the lists the rest does not imply ReaderOK'/PubEmptyOrComplete *)
WeakInv  == TypeOK /\ Coords /\ Roles /\ Tmp /\ Shared /\ Alone /\ Lock /\ Seen
WeakInit == Arbitrary /\ WeakInv
=============================================================================
