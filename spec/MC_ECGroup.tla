---------------------------- MODULE MC_ECGroup ----------------------------
(* Exhaustive check of the group law of ECGroup on one tiny curve (constants from the cfg).
   State = (p, q, k, acc): every pair of group elements, k walks 0..2N+1 while acc accumulates k*p by
   repeated addition, so that all workers are used and Mul is compared with repeated addition. *)
EXTENDS ECGroup, TLC
VARIABLES p, q, k, acc

Init == p \in Group /\ q \in Group /\ k = 0 /\ acc = Inf
Next == k < (2 * N * H) + 1 /\ k' = k + 1 /\ acc' = Add(acc, p) /\ UNCHANGED <<p, q>>

IsPrime(n) == n > 1 /\ \A d \in 2..(n - 1) : (n % d) # 0

\* --- the constants describe what they claim (evaluated once)
ASSUME IsPrime(P) /\ P > 3
ASSUME ((4 * A * A * A) + (27 * B * B)) % P # 0
ASSUME IsPrime(N) /\ H \in {1, 2, 4}
ASSUME Cardinality(Group) = N * H
ASSUME G \in Points /\ Mul(N, G) = Inf
\* no finite point of a curve of odd order has y = 0: the library's "Y = 0 or Z = 0 means infinity" is sound there,
\* and every valid Jacobian triple with Z # 0 denotes a group element
ASSUME \A X \in Fp, Y \in Fp, Z \in 1..(P - 1) :
          JacValid(<<X, Y, Z>>) => (AffOf(<<X, Y, Z>>) \in Points /\ (H = 1 => Y # 0))
\* public keys: valid exactly for the non-trivial multiples of G (all finite points when H = 1)
ASSUME \A x \in 0..(P + 1), y \in 0..(P + 1) :
          ValidPub(x, y) <=> (\E d \in 1..(N - 1) : Pub(d) = <<0, x, y>>)
ASSUME H = 1 => \A x \in 0..(P + 1), y \in 0..(P + 1) : ValidPub(x, y) <=> <<0, x, y>> \in Points
\* compression is a bijection between points and (parity, x)
ASSUME \A pt \in Points : pt[3] # 0 => Decompress(pt[3] % 2, pt[2]) = pt[3]
\* ECDH
ASSUME \A dA \in 1..(N - 1), dB \in 1..(N - 1) :
          /\ ECDH(dA, dB) = ECDH(dB, dA)
          /\ ECDH(dA, dB) # -1
          /\ ECDHPoint(dA, dB) = Mul((dA * dB) % N, G)

Closure   == Add(p, q) \in Group
Commut    == Add(p, q) = Add(q, p)
Ident     == Add(p, Inf) = p /\ Add(Inf, p) = p
Inverse   == Neg(p) \in Group /\ Add(p, Neg(p)) = Inf /\ Add(Neg(p), p) = Inf /\ Neg(Neg(p)) = p
Assoc     == k = 0 => \A r \in Group : Add(Add(p, q), r) = Add(p, Add(q, r))
MulIsRep  == acc = Mul(k, p) /\ acc \in Group
MulHom    == q = Inf => \A j \in 0..((2 * N * H) + 1) : Mul(j + k, p) = Add(Mul(j, p), Mul(k, p))
MulDistr  == k <= N => Mul(k, Add(p, q)) = Add(Mul(k, p), Mul(k, q))
MulAddDef == k <= N => MulAdd(k, p, N - k, q) = Add(Mul(k, p), Mul(N - k, q))
OrderDiv  == Mul(N * H, p) = Inf /\ Mul(k, p) = Mul(k % (N * H), p)
PrimeOrder == (H = 1 /\ p # Inf /\ k \in 1..(N - 1)) => Mul(k, p) # Inf
Jacobian  == (k = 0 /\ q = Inf) => \A l \in 1..(P - 1) :
                 LET J == JacOf(p, l) IN
                 /\ AffOf(J) = p /\ RepOK(J)
                 /\ (H = 1 => AffOfLib(J) = p)
                 /\ (p # Inf => JacValid(J))
                 /\ \A m \in 1..(P - 1) : AffOf(<<(m * m * J[1]) % P, (m * m * m * J[2]) % P, (m * J[3]) % P>>) = p

\* --- self-test: the law with the `a` term dropped from the tangent slope must be refuted
BadLawClosed == BadAdd(p, q) \in Group
BadLawAssoc  == k = 0 => \A r \in Group : BadAdd(BadAdd(p, q), r) = BadAdd(p, BadAdd(q, r))
=============================================================================
