------------------------------ MODULE MC_Parsers ------------------------------
(* C14 on the abstract instance: the reader specification is TOTAL over ARBITRARY cell strings (not only damaged valid
   files): for every string over the alphabet up to MaxLen, with MAC checking on and off, evaluating the reader
   terminates (TLC evaluates it) without an evaluation error (the spec's analogue of IndexError/KeyError/TypeError),
   and the outcome is Accept or one of the named rejection clauses, each of which the library reports as a format
   error or ValueError.  Strings are grown one cell per step so that all workers are used. *)
EXTENDS Bf3Abstract, TLC
CONSTANTS MaxLen, Seeded
VARIABLES file, grown
Alphabet == {ICell(0), ICell(1), ICell(2), ICell(3), ICell(7), ICell(66), ICell(999),
             [k |-> "m", v |-> <<0, 0, <<ICell(0), ICell(0)>>>>], [k |-> "g", v |-> <<0, <<>>, 0>>]}
\* Seeded = FALSE: arbitrary strings from the empty string.  Seeded = TRUE: every prefix of two valid files
\* (one plain component with a tag, one encrypted component) continued by up to MaxLen arbitrary cells, so that
\* the entry, description, MAC, address and payload steps are reached with arbitrary data.
SeedFiles == { WriteFile(<<[desc |-> << <<1, <<ICell(7)>> >> >>, blob |-> <<ICell(1), ICell(0)>>, alen |-> 2, enc |-> FALSE]>>, 0),
               WriteFile(<<[desc |-> << <<2, <<ICell(2)>> >> >>, blob |-> <<ICell(1)>>, alen |-> 1, enc |-> TRUE]>>, 0) }
Init == /\ grown = 0
        /\ IF Seeded THEN \E f \in SeedFiles : \E n \in 0..Len(f) : file = SubSeq(f, 1, n) ELSE file = <<>>
Next == grown < MaxLen /\ grown' = grown + 1 /\ \E c \in Alphabet \cup (IF Seeded THEN UNION {{f[j] : j \in 1..Len(f)} : f \in SeedFiles} ELSE {}) : file' = Append(file, c)
Clauses == {"signature", "dirsize-short", "dir-short", "dir-no-sentinel", "dir-trailing", "entry-len-overlong", "entry-short",
            "declared-gt-stored", "desc-short", "tag-len-overlong", "dup-tag", "entry-mac", "entry-trailing", "address",
            "payload-short", "payload-mac", "enc-length", "file-trailing"}
\* the exception class the library uses for each clause (FormatError subclasses or ValueError from BytesReader)
ClassOf(e) == IF e \in {"signature", "declared-gt-stored", "dup-tag", "entry-mac", "address", "payload-mac"} THEN "Bf3FileFormatError"
              ELSE "ValueError"
Total == \A chk \in BOOLEAN : \A key \in {0, 1} :
           LET r == ReadFile(file, key, chk) IN
           /\ r.ok \in BOOLEAN
           /\ (~r.ok => r.err \in Clauses /\ ClassOf(r.err) \in {"Bf3FileFormatError", "ValueError"})
           /\ (r.ok => \A j \in 1..Len(r.comps) : Len(r.comps[j].blob) >= 0)
\* vacuity guard: some arbitrary string IS accepted (expected to be violated)
NothingAccepted == ~ReadFile(file, 0, FALSE).ok
=============================================================================
