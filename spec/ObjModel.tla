------------------------------- MODULE ObjModel -------------------------------
(* C11: edit histories of a Bf3File / Bec2File object.  State = what the public attributes expose:
     comps     sequence of components: firmware with TYPE tag ("fwT"), firmware without ("fwU"), firmware whose TYPE tag is the
               two-byte value 00 03 ("fwW": numerically the configuration type, but not the configuration tag), configuration ("cfg", c)
     cm        the three configuration-derived comments plus one user comment ("Other") that no operation may touch
     auth      the authentication blocks in dict order
   Operations (one named action per parameter instance so that TLC's state-graph edges identify the call):
     SetCfg_c, DeriveCm_c, DeriveAuthEcc_c, DeriveAuthCust_c (c = 1..4), AppendT/U/W, InsertT/U/W, WriteRead (BF3 framing),
     FailedWrite (a BEC2 write refused for want of a customer-key encryptor), WriteReadBec2 (BEC2 framing with the right
     encryptors, read back with the customer key and the security code: an observation, the object itself is kept).
   Configurations:  1 full naming scheme + security code + bus address;  2 name-only project settings, nothing else;
                    3 device settings only + security code, no bus-address flag;
                    4 full naming scheme with identifier VERSION 0 + security code (the update block carries version 0).
   Switch CFG_NDX_KEYERROR models the code before fix #6 (a component without TYPE tag in front of the configuration
   makes the lookup fail with KeyError, which set_config reads as "no configuration"). *)
EXTENDS Naturals, Sequences, FiniteSets
CONSTANTS CFG_NDX_KEYERROR, MaxFw, MaxSteps
VARIABLES comps, cm, auth, nfw, steps, last
vars == <<comps, cm, auth, nfw, steps, last>>

Cfgs == 1..4
HasPrj(c)  == c \in {1, 2, 4}
HasDev(c)  == c \in {1, 3}
Bus(c)     == c = 1
HasCode(c) == c \in {1, 3, 4}
None == <<>>
CmOf(c) == [Configuration |-> IF HasPrj(c) THEN <<"prj", c>> ELSE None,
            DeviceSettings |-> IF HasDev(c) THEN <<"dev", c>> ELSE None,
            RequiresBusAddress |-> IF Bus(c) THEN <<"Yes", 0>> ELSE None]

Init == /\ comps = <<>> /\ cm = [Configuration |-> None, DeviceSettings |-> None, RequiresBusAddress |-> None, Other |-> <<"keep", 0>>]
        /\ auth = <<>> /\ nfw = 0 /\ steps = 0 /\ last = <<"init", 0>>

IsCfg(x) == x.k \in {"cfg", "cfgx"}
CfgIdx == {j \in 1..Len(comps) : IsCfg(comps[j])}
\* index the library's lookup finds: first configuration component - unless (switch) an untyped component precedes it
FoundIdx == IF CfgIdx = {} THEN 0
            ELSE LET j == CHOOSE j \in CfgIdx : \A q \in CfgIdx : j <= q IN
                 IF CFG_NDX_KEYERROR /\ \E q \in 1..(j - 1) : comps[q].k = "fwU" THEN 0 ELSE j
Without(s, j) == SubSeq(s, 1, j - 1) \o SubSeq(s, j + 1, Len(s))
Tick(op, c) == steps < MaxSteps /\ steps' = steps + 1 /\ last' = <<op, c>>
SetCfg(c) == /\ Tick("set", c)
             /\ comps' = Append(IF FoundIdx = 0 THEN comps ELSE Without(comps, FoundIdx), [k |-> "cfg", id |-> c])
             /\ UNCHANGED <<cm, auth, nfw>>
\* set_config(configuration c, [one caller-supplied extra TLV block]): the component encodes c followed by that block - and only
\* while it is the most recent update (a later SetCfg(c) without extras encodes c alone)
SetCfgX(c) == /\ Tick("setx", c)
              /\ comps' = Append(IF FoundIdx = 0 THEN comps ELSE Without(comps, FoundIdx), [k |-> "cfgx", id |-> c])
              /\ UNCHANGED <<cm, auth, nfw>>
DeriveCm(c) == /\ Tick("derivecm", c)
               /\ cm' = [cm EXCEPT !.Configuration = CmOf(c).Configuration, !.DeviceSettings = CmOf(c).DeviceSettings,
                                   !.RequiresBusAddress = CmOf(c).RequiresBusAddress]
               /\ UNCHANGED <<comps, auth, nfw>>
\* auth_blocks is a dict by tag: a block of a kind already present is replaced in place, a new kind is appended
Put(a, b) == IF \E j \in 1..Len(a) : a[j].kind = b.kind
             THEN SubSeq([j \in 1..Len(a) |-> IF a[j].kind = b.kind THEN b ELSE a[j]], 1, Len(a)) ELSE Append(a, b)
UpdBlock(c) == [kind |-> "update", c |-> c]           \* carries security code and identifier version of configuration c
DeriveAuth(c, mode) ==
    /\ Tick(IF mode = "ecc" THEN "deriveecc" ELSE "derivecust", c)
    /\ LET a1 == Put(auth, [kind |-> mode, c |-> 0]) IN
       auth' = IF HasCode(c) /\ (HasPrj(c) \/ HasDev(c)) THEN Put(a1, UpdBlock(c)) ELSE a1
    /\ UNCHANGED <<comps, cm, nfw>>
AddFw(kind, front) == /\ nfw < MaxFw /\ Tick(IF front THEN "insert" ELSE "append", 0)
                      /\ nfw' = nfw + 1
                      /\ comps' = IF front THEN <<[k |-> kind, id |-> nfw + 1]>> \o comps ELSE Append(comps, [k |-> kind, id |-> nfw + 1])
                      /\ UNCHANGED <<cm, auth>>
WriteRead == Tick("writeread", 0) /\ UNCHANGED <<comps, cm, auth, nfw>>     \* writing and reading back changes nothing observable
HasKind(k) == \E j \in 1..Len(auth) : auth[j].kind = k
\* a BEC2 write without encryptors is refused when a customer-key block is present (KeyError) - and changes nothing
FailedWrite == HasKind("cust") /\ Tick("failedwrite", 0) /\ UNCHANGED <<comps, cm, auth, nfw>>
\* BEC2 write with the proper encryptors; the file read back (customer key / security code) shows the same components, comments
\* and blocks (an ECC block for the published key comes back opaque): observation only
WriteReadBec2 == (HasKind("cust") \/ HasKind("update")) /\ Tick("writereadbec2", 0) /\ UNCHANGED <<comps, cm, auth, nfw>>

SetCfg1 == SetCfg(1)   SetCfg2 == SetCfg(2)   SetCfg3 == SetCfg(3)   SetCfg4 == SetCfg(4)
SetCfgX1 == SetCfgX(1)   SetCfgX2 == SetCfgX(2)
DeriveCm1 == DeriveCm(1)   DeriveCm2 == DeriveCm(2)   DeriveCm3 == DeriveCm(3)   DeriveCm4 == DeriveCm(4)
DeriveAuthEcc1 == DeriveAuth(1, "ecc")   DeriveAuthEcc2 == DeriveAuth(2, "ecc")   DeriveAuthEcc3 == DeriveAuth(3, "ecc")
DeriveAuthCust1 == DeriveAuth(1, "cust")  DeriveAuthCust2 == DeriveAuth(2, "cust")
DeriveAuthEcc4 == DeriveAuth(4, "ecc")   DeriveAuthCust4 == DeriveAuth(4, "cust")
AppendT == AddFw("fwT", FALSE)   AppendU == AddFw("fwU", FALSE)   InsertT == AddFw("fwT", TRUE)   InsertU == AddFw("fwU", TRUE)
AppendW == AddFw("fwW", FALSE)   InsertW == AddFw("fwW", TRUE)
Next == SetCfg1 \/ SetCfg2 \/ SetCfg3 \/ SetCfg4 \/ SetCfgX1 \/ SetCfgX2 \/ DeriveCm1 \/ DeriveCm2 \/ DeriveCm3 \/ DeriveCm4 \/ DeriveAuthEcc4 \/ DeriveAuthCust4
        \/ DeriveAuthEcc1 \/ DeriveAuthEcc2 \/ DeriveAuthEcc3 \/ DeriveAuthCust1 \/ DeriveAuthCust2
        \/ AppendT \/ AppendU \/ InsertT \/ InsertU \/ AppendW \/ InsertW \/ WriteRead \/ FailedWrite \/ WriteReadBec2
Spec == Init /\ [][Next]_vars

\* ---- properties (C11)
AtMostOneCfg == Cardinality(CfgIdx) <= 1
AfterSetCfg == /\ last[1] = "set" => (Cardinality(CfgIdx) = 1 /\ comps[Len(comps)] = [k |-> "cfg", id |-> last[2]])
               /\ last[1] = "setx" => (Cardinality(CfgIdx) = 1 /\ comps[Len(comps)] = [k |-> "cfgx", id |-> last[2]])
Fw(s) == SelectSeq(s, LAMBDA x : ~IsCfg(x))
FirmwareUntouched == [][ \/ Fw(comps') = Fw(comps)
                         \/ (nfw' = nfw + 1 /\ (Fw(comps') = Append(Fw(comps), comps'[Len(comps')]) \/ Fw(comps') = <<comps'[1]>> \o Fw(comps))) ]_vars
DerivedCommentsDependOnConfigOnly == last[1] = "derivecm" =>
    (cm.Configuration = CmOf(last[2]).Configuration /\ cm.DeviceSettings = CmOf(last[2]).DeviceSettings
     /\ cm.RequiresBusAddress = CmOf(last[2]).RequiresBusAddress)
OtherCommentsUntouched == cm.Other = <<"keep", 0>>
OneBlockPerKind == \A a, b \in 1..Len(auth) : a # b => auth[a].kind # auth[b].kind
\* deriving auth blocks for a file that has none: exactly the requested initial block, plus an update block iff code and id exist
DeriveFromEmpty == [][ (auth = <<>> /\ auth' # <<>>) =>
       LET c == last'[2]  mode == IF last'[1] = "deriveecc" THEN "ecc" ELSE "cust" IN
       auth' = IF HasCode(c) /\ (HasPrj(c) \/ HasDev(c)) THEN <<[kind |-> mode, c |-> 0], UpdBlock(c)>> ELSE <<[kind |-> mode, c |-> 0]>> ]_vars
=============================================================================
