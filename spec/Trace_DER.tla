------------------------------ MODULE Trace_DER ------------------------------
(* C->S for the DER primitives of python-ecdsa's der.py, judged by DER.tla.

   op "enclen"  der.encode_length(n)                      n, out
   op "readlen" der.read_length(data)                     data, ok, len, used
   op "int"     der.encode_integer(v) / remove_integer    mag (big-endian octets of v), out, dok, dmag, drest
   op "oid"     der.encode_oid(arcs..) / remove_object     arcs, out, dok, darcs
   op "wrap"    encode_octet_string / encode_bitstring(.., 0) / encode_sequence / encode_constructed
                                                          what octets|bits|seq|ctx0|ctx1, body, out
   op "prim"    der.remove_* on a damaged primitive       dec, mk trunc|empty, out ok|raise, mro, site
                (judged on the error class only: the primitives do not promise to reject a short
                 buffer - the key decoders above them do, and that is judged in Trace_KeyEnc) *)
EXTENDS DER, Json, IOUtils, TLC
Trace == ndJsonDeserialize(IOEnv.TRACE_FILE)
VARIABLE i

Documented == {"UnexpectedDER", "MalformedPointError", "UnknownCurveError", "ValueError"}

VReadLen(ev) ==
    LET r == ReadLen(ev.data, 1, Len(ev.data)) IN
    IF r.ok # ev.ok THEN (IF r.ok THEN "valid-length-rejected" ELSE "invalid-length-accepted")
    ELSE IF r.ok /\ ~(r.len = ev.len /\ r.nx = ev.used + 1) THEN "length-value"
    ELSE "ok"

VInt(ev) ==
    LET e == EncUInt(ev.mag)
        t == Tlv(ev.out, 1, Len(ev.out))
    IN
    IF ev.out # e THEN "integer-bytes"
    ELSE IF DecodeTop(ev.out) # "ok" THEN "integer-not-der"
    ELSE IF ~ev.dok THEN "integer-roundtrip-failed"
    ELSE IF ev.dmag # (IF ev.mag = <<>> THEN <<0>> ELSE StripZeros(ev.mag)) THEN "integer-roundtrip-value"
    ELSE IF ev.drest # <<>> THEN "integer-roundtrip-rest"
    ELSE IF IntMag(ev.out, t.cs, t.ce) # ev.dmag THEN "integer-magnitude"
    ELSE "ok"

VOid(ev) ==
    IF ev.out # EncOid(ev.arcs) THEN "oid-bytes"
    ELSE IF DecodeTop(ev.out) # "ok" THEN "oid-not-der"
    ELSE IF ~ev.dok THEN "oid-roundtrip-failed"
    ELSE IF ev.darcs # ev.arcs THEN "oid-roundtrip-value"
    ELSE "ok"

VWrap(ev) ==
    LET e == IF ev.what = "octets" THEN EncOctets(ev.body)
             ELSE IF ev.what = "bits" THEN EncBits(0, ev.body)
             ELSE IF ev.what = "seq" THEN EncTlv(T_SEQ, ev.body)
             ELSE IF ev.what = "ctx0" THEN EncCtx(0, ev.body)
             ELSE EncCtx(1, ev.body)
        t == Tlv(ev.out, 1, Len(ev.out))
    IN
    IF ev.out # e THEN "wrap-bytes"
    ELSE IF ~(t.ok /\ t.nx = Len(ev.out) + 1) THEN "wrap-not-a-tlv"
    ELSE IF \E k \in 0..(Len(ev.out) - 1) : Tlv(ev.out, 1, k).ok /\ Tlv(ev.out, 1, k).nx = k + 1 THEN "spec-accepts-a-truncation"
    ELSE "ok"

VPrim(ev) ==
    IF ev.out = "raise" THEN
        (IF \E k \in 1..Len(ev.mro) : ev.mro[k] \in Documented THEN "ok" ELSE "undocumented-error")
    ELSE "ok"

Verdict(ev) ==
    IF ev.op = "enclen" THEN (IF ev.out = EncLen(ev.n) THEN "ok" ELSE "length-bytes")
    ELSE IF ev.op = "readlen" THEN VReadLen(ev)
    ELSE IF ev.op = "int" THEN VInt(ev)
    ELSE IF ev.op = "oid" THEN VOid(ev)
    ELSE IF ev.op = "wrap" THEN VWrap(ev)
    ELSE IF ev.op = "prim" THEN VPrim(ev)
    ELSE "unknown-op"

Init == i = 1
Next == /\ i <= Len(Trace)
        /\ LET v == Verdict(Trace[i]) IN
             IF v = "ok" THEN TRUE ELSE PrintT(<<"REJ", Trace[i].tid, v, "">>)
        /\ i' = i + 1
        /\ IF i = Len(Trace) THEN PrintT(<<"DONE", i>>) ELSE TRUE
=============================================================================
