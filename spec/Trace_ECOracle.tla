--------------------------- MODULE Trace_ECOracle ---------------------------
(* Oracle-relation events of C17 / C18 on the 17 shipped short-Weierstrass curves.  TLC cannot compute with
   112..521-bit integers; here it is the comparator of what the library returned (lib) with what the OpenSSL
   command line returned for the same question (ref), under the relation named by op.
   Event fields (all events): tid, op, what, ctx, zero, lib, ref, cls
     eq      lib, ref byte strings: equal and not empty         (k*G, P+Q, ECDH secret, public key, RFC 6979 (r, s))
     eqinf   as eq, but zero = 1 says the scalar is = 0 (mod n): then lib must be <<>> (the point at infinity)
     verdict lib, ref \in {"accept", "reject"}: equal; a library reject carries a documented exception class (cls) for ctx
     accept  lib = ref = "accept"                                (interoperability of untampered signatures)
     docreject  no oracle (e.g. a raw signature of the wrong length has no (r, s)): lib = "reject" with a documented class
     flags   lib is a sequence of 0/1 relations evaluated on big integers by the harness: all 1 *)
EXTENDS Integers, Sequences, Json, IOUtils, TLC
Trace == ndJsonDeserialize(IOEnv.TRACE_FILE)
VARIABLE i

Doc(ctx) == IF ctx = "pub-string" THEN {"MalformedPointError"}
            ELSE IF ctx = "ecdh-bytes" THEN {"MalformedPointError"}
            ELSE IF ctx = "pub-der" THEN {"MalformedPointError", "UnexpectedDER"}
            ELSE IF ctx \in {"pub-pem", "ecdh-der", "ecdh-pem"} THEN {"MalformedPointError", "UnexpectedDER"}
            ELSE IF ctx = "public-key-ctor" THEN {"InvalidPointError"}
            ELSE IF ctx = "pub-point" THEN {"MalformedPointError"}
            ELSE IF ctx = "ecdh-curves" THEN {"InvalidCurveError"}
            ELSE IF ctx = "verify" THEN {"BadSignatureError"}
            ELSE {}
VD == {"accept", "reject"}

Verdict(ev) ==
    IF ev.op = "eq" THEN
        IF Len(ev.lib) > 0 /\ ev.lib = ev.ref THEN "ok" ELSE "differs-from-openssl"
    ELSE IF ev.op = "eqinf" THEN
        IF ev.zero = 1 THEN (IF ev.lib = <<>> THEN "ok" ELSE "not-infinity")
        ELSE IF Len(ev.lib) > 0 /\ ev.lib = ev.ref THEN "ok" ELSE "differs-from-openssl"
    ELSE IF ev.op = "verdict" THEN
        IF ev.lib \notin VD \/ ev.ref \notin VD THEN "verdict-malformed"
        ELSE IF ev.lib = "accept" /\ ev.ref = "reject" THEN "accepted-but-openssl-rejects"
        ELSE IF ev.lib = "reject" /\ ev.ref = "accept" THEN "rejected-but-openssl-accepts"
        ELSE IF ev.lib = "reject" /\ ev.cls \notin Doc(ev.ctx) THEN "undocumented-exception"
        ELSE "ok"
    ELSE IF ev.op = "accept" THEN
        IF ev.lib # "accept" THEN "library-rejects-valid"
        ELSE IF ev.ref # "accept" THEN "openssl-rejects-library-output"
        ELSE "ok"
    ELSE IF ev.op = "docreject" THEN
        IF ev.lib # "reject" THEN "malformed-accepted"
        ELSE IF ev.cls \notin Doc(ev.ctx) THEN "undocumented-exception"
        ELSE "ok"
    ELSE IF ev.op = "flags" THEN
        IF Len(ev.lib) > 0 /\ \A j \in 1..Len(ev.lib) : ev.lib[j] = 1 THEN "ok" ELSE "relation-fails"
    ELSE "unknown-op"

Init == i = 1
Next == /\ i <= Len(Trace)
        /\ LET v == Verdict(Trace[i]) IN
             IF v = "ok" THEN TRUE ELSE PrintT(<<"REJ", Trace[i].tid, v, Trace[i].what>>)
        /\ i' = i + 1
        /\ IF i = Len(Trace) THEN PrintT(<<"DONE", i>>) ELSE TRUE
=============================================================================
