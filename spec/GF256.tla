------------------------------ MODULE GF256 ------------------------------
(* GF(2^8) with the AES polynomial x^8+x^4+x^3+x+1 (0x11B), from the definition. *)
EXTENDS Naturals, Bitwise
XTime(a) == LET d == a * 2 IN IF d >= 256 THEN (d - 256) ^^ 27 ELSE d
\* Russian-peasant multiplication, unrolled over the 8 bits of b (no recursion)
Bit(b, i) == (b \div (2 ^ i)) % 2
GMul(a, b) ==
    LET a0 == a          a1 == XTime(a0)  a2 == XTime(a1)  a3 == XTime(a2)
        a4 == XTime(a3)  a5 == XTime(a4)  a6 == XTime(a5)  a7 == XTime(a6)
        T(ai, i) == IF Bit(b, i) = 1 THEN ai ELSE 0
    IN  ((T(a0, 0) ^^ T(a1, 1)) ^^ (T(a2, 2) ^^ T(a3, 3))) ^^ ((T(a4, 4) ^^ T(a5, 5)) ^^ (T(a6, 6) ^^ T(a7, 7)))
GInv(a) == IF a = 0 THEN 0 ELSE CHOOSE b \in 1..255 : GMul(a, b) = 1
RotL8(x, n) == ((x * (2 ^ n)) % 256) + (x \div (2 ^ (8 - n)))
=============================================================================
