------------------------------ MODULE MC_Adapter ------------------------------
(* Bounded instance of Adapter over the tiny cipher: two objects created with every combination of
   (key, iv) - iv None, explicit zero, non-zero; the same or different parameters - and every history of
   <= MaxCalls calls (encrypt / decrypt / mac, any object, any datum of a set that contains data ending in
   runs of zero cells, all-zero data, lengths 1..2*BLK+1, for decrypt the encryptions of all of these under
   the object's own parameters plus arbitrary blocks).
     PureResult   every result equals the pure function of (key, iv, data) - hence independent of the history
     RoundTrip    decrypt(encrypt(d)) = d zero-padded, exactly (full length)
     MacLast      mac = last block of encrypt, one block long
     KeepsParams  a call never changes (key, iv) of any object *)
EXTENDS Adapter, TinyCipher, TLC
CONSTANTS MaxCalls
VARIABLES objs, n, last

PA == <<1,3,0,2,2,1,0,3,3,1,2,0,0,3,1,1,2,3,0,1,3,2>>
PB == <<0,0,1,0,3,3,2,0,1,1,0,0,0,2,3,1,0,2,2,0,0,3>>
PZ == <<2,0,0,0,0,0,0,0,0,0,0,0>>
EncData == {Take(PA, l) : l \in 1..(2 * BLK + 1)} \cup {Take(PZ, l) : l \in 2..(2 * BLK + 1)} \cup {Take(PB, BLK + 1)}
           \cup {Zeros(1), Zeros(BLK), Zeros(BLK + 1)}
\* call arguments [d |-> data, src |-> x]: for decrypt either the encryption of x under the object's own
\* parameters (src = x) or an arbitrary block string (src = <<>>)
DecArgs(o) == {[d |-> AdEncrypt(o.k, o.iv, x), src |-> x] : x \in EncData}
              \cup {[d |-> y, src |-> <<>>] : y \in {Take(PA, BLK), Take(PB, 2 * BLK), Zeros(BLK)}}
ArgsFor(op, o) == IF op = "decrypt" THEN DecArgs(o) ELSE {[d |-> x, src |-> <<>>] : x \in EncData}
Ops == {"encrypt", "decrypt", "mac"}

\* the two objects are interchangeable: unordered pairs of parameter combinations (21 of 36)
Params == <<[k |-> 1, iv |-> <<>>], [k |-> 1, iv |-> Zeros(BLK)], [k |-> 1, iv |-> Take(PA, BLK)],
            [k |-> 2, iv |-> <<>>], [k |-> 2, iv |-> Zeros(BLK)], [k |-> 2, iv |-> Take(PA, BLK)]>>
Init == /\ objs \in {<<NewObj(Params[a].k, Params[a].iv), NewObj(Params[b].k, Params[b].iv)>> : a \in 1..6, b \in 1..6} 
        /\ \E a \in 1..6 : \E b \in a..6 : objs = <<NewObj(Params[a].k, Params[a].iv), NewObj(Params[b].k, Params[b].iv)>>
        /\ n = 0 /\ last = [i |-> 0, op |-> "", data |-> <<>>, src |-> <<>>, out |-> <<>>, err |-> ""]
Next == /\ n < MaxCalls
        /\ \E i \in 1..2 : \E op \in Ops : \E a \in ArgsFor(op, objs[i]) :
             LET r == Impl(op, objs[i], a.d) IN
               /\ objs' = [objs EXCEPT ![i] = r.o]
               /\ last' = [i |-> i, op |-> op, data |-> a.d, src |-> a.src, out |-> r.out, err |-> r.err]
               /\ n' = n + 1

PureResult == n > 0 => (last.err = "" /\ last.out = Pure(last.op, objs[last.i].k, objs[last.i].iv, last.data))
RoundTrip  == (n > 0 /\ last.op = "decrypt" /\ last.src # <<>>) => last.out = ZeroPadTo(last.src)
MacLast    == (n > 0 /\ last.op = "mac") =>
                 LET c == AdEncrypt(objs[last.i].k, objs[last.i].iv, last.data) IN Len(last.out) = BLK /\ last.out = Drop(c, Len(c) - BLK)
KeepsParams == [][\A i \in 1..2 : objs'[i].k = objs[i].k /\ objs'[i].iv = objs[i].iv]_<<objs, n, last>>
Spec == Init /\ [][Next]_<<objs, n, last>>
\* iv None is the zero IV; zero padding is idempotent and never shortens
ASSUME \A x \in EncData : \A k \in TinyKeys : Pure("encrypt", k, <<>>, x) = Pure("encrypt", k, Zeros(BLK), x)
ASSUME \A x \in EncData : ZeroPadTo(ZeroPadTo(x)) = ZeroPadTo(x) /\ Take(ZeroPadTo(x), Len(x)) = x /\ Len(ZeroPadTo(x)) % BLK = 0
=============================================================================
