------------------------------ MODULE Bf3Reader ------------------------------
(* The BF3 reader as an explicit step machine over ARBITRARY cell strings (abstract instance), one step per group of
   reads the code performs: signature, directory size + directory, one directory entry per step, directory end, one
   payload per step, end of file.  Checked by TLC:
     Refines      when the machine is done its outcome equals the functional reader L!Parse (the one used to judge
                  recorded events), so both formulations of the specification agree on every string
     Termination  <>(pc = "done") under weak fairness of the read steps: the reader always terminates
     Variant      every read step strictly decreases (cells of the directory not yet consumed, payloads not yet read)
     OutcomeClass the outcome is Accept or one of the named rejection clauses
   The file is grown cell by cell first (phase "grow"), then read. *)
EXTENDS Bf3Abstract, TLC
CONSTANTS MaxLen, Seeded
VARIABLES file, grown, pc, pos, dir, dpos, idx, ents, comps, cidx, res, key, chk
vars == <<file, grown, pc, pos, dir, dpos, idx, ents, comps, cidx, res, key, chk>>
Alphabet == {ICell(0), ICell(1), ICell(2), ICell(3), ICell(7), ICell(66), ICell(999),
             [k |-> "m", v |-> <<0, 0, <<ICell(0), ICell(0)>>>>], [k |-> "g", v |-> <<0, <<>>, 0>>]}
SeedFiles == { WriteFile(<<[desc |-> << <<1, <<ICell(7)>> >> >>, blob |-> <<ICell(1), ICell(0)>>, alen |-> 2, enc |-> FALSE]>>, 0),
               WriteFile(<<[desc |-> << <<2, <<ICell(2)>> >> >>, blob |-> <<ICell(1)>>, alen |-> 1, enc |-> TRUE]>>, 0) }
Init == /\ grown = 0 /\ pc = "grow" /\ pos = 0 /\ dir = <<>> /\ dpos = 0 /\ idx = 1 /\ ents = <<>> /\ comps = <<>> /\ cidx = 1
        /\ res = [ok |-> FALSE, err |-> "", comps |-> <<>>] /\ key \in {0, 1} /\ chk \in BOOLEAN
        /\ IF Seeded THEN \E f \in SeedFiles : \E n \in 0..Len(f) : file = SubSeq(f, 1, n) ELSE file = <<>>
Grow == /\ pc = "grow" /\ grown < MaxLen /\ grown' = grown + 1
        /\ \E c \in Alphabet \cup (IF Seeded THEN UNION {{f[j] : j \in 1..Len(f)} : f \in SeedFiles} ELSE {}) : file' = Append(file, c)
        /\ UNCHANGED <<pc, pos, dir, dpos, idx, ents, comps, cidx, res, key, chk>>
StartRead == pc = "grow" /\ pc' = "sig" /\ UNCHANGED <<file, grown, pos, dir, dpos, idx, ents, comps, cidx, res, key, chk>>
Done(r) == pc' = "done" /\ res' = r
Reject(e) == Done(L!Err(e))
Keep == UNCHANGED <<file, grown, key, chk>>
Sig == /\ pc = "sig" /\ Keep
       /\ IF Len(file) < 1 \/ file[1] # SigCell THEN Reject("signature") /\ UNCHANGED <<pos, dir, dpos, idx, ents, comps, cidx>>
          ELSE pc' = "dirsize" /\ pos' = 1 /\ UNCHANGED <<dir, dpos, idx, ents, comps, cidx, res>>
DirSize == /\ pc = "dirsize" /\ Keep
           /\ IF ~L!CanRead(file, pos, 1) THEN Reject("dirsize-short") /\ UNCHANGED <<pos, dir, dpos, idx, ents, comps, cidx>>
              ELSE LET dsz == L!IntOf(L!Rd(file, pos, 1))  p == L!Adv(file, pos, 1) IN
                   IF ~L!CanRead(file, p, dsz) THEN Reject("dir-short") /\ UNCHANGED <<pos, dir, dpos, idx, ents, comps, cidx>>
                   ELSE pc' = "entrylen" /\ dir' = L!Rd(file, p, dsz) /\ pos' = L!Adv(file, p, dsz) /\ dpos' = 0
                        /\ UNCHANGED <<idx, ents, comps, cidx, res>>
EntryLen == /\ pc = "entrylen" /\ Keep
            /\ IF ~L!CanRead(dir, dpos, 1) THEN Reject("dir-no-sentinel") /\ UNCHANGED <<pos, dir, dpos, idx, ents, comps, cidx>>
               ELSE LET elen == L!IntOf(L!Rd(dir, dpos, 1))  q == L!Adv(dir, dpos, 1) IN
                    IF elen = 0 THEN (IF q = Len(dir) THEN pc' = "payload" /\ dpos' = q /\ UNCHANGED <<pos, dir, idx, ents, comps, cidx, res>>
                                      ELSE Reject("dir-trailing") /\ UNCHANGED <<pos, dir, dpos, idx, ents, comps, cidx>>)
                    ELSE IF ~L!CanRead(dir, q, elen) THEN Reject("entry-len-overlong") /\ UNCHANGED <<pos, dir, dpos, idx, ents, comps, cidx>>
                    ELSE LET pe == L!ParseEntry(L!Rd(dir, q, elen), idx, key, chk) IN
                         IF ~pe.ok THEN Reject(pe.err) /\ UNCHANGED <<pos, dir, dpos, idx, ents, comps, cidx>>
                         ELSE pc' = "entrylen" /\ dpos' = L!Adv(dir, q, elen) /\ idx' = idx + 1 /\ ents' = Append(ents, pe)
                              /\ UNCHANGED <<pos, dir, comps, cidx, res>>
Payload == /\ pc = "payload" /\ Keep
           /\ IF cidx > Len(ents) THEN
                 (IF pos = Len(file) THEN Done([ok |-> TRUE, err |-> "", comps |-> comps]) ELSE Reject("file-trailing"))
                 /\ UNCHANGED <<pos, dir, dpos, idx, ents, comps, cidx>>
              ELSE LET en == ents[cidx] IN
                   IF en.adr # pos THEN Reject("address") /\ UNCHANGED <<pos, dir, dpos, idx, ents, comps, cidx>>
                   ELSE IF ~L!CanRead(file, pos, en.total) THEN Reject("payload-short") /\ UNCHANGED <<pos, dir, dpos, idx, ents, comps, cidx>>
                   ELSE LET pl == L!Rd(file, pos, en.total) IN
                        IF chk /\ (Len(pl) = 0 \/ AMac(key, 0, pl) # en.pmac) THEN Reject("payload-mac") /\ UNCHANGED <<pos, dir, dpos, idx, ents, comps, cidx>>
                        ELSE IF L!IsEncDesc(en.desc) /\ ~ENC_NEVER_DECRYPTS /\ (Len(pl) = 0 \/ Len(pl) % ABLK # 0)
                             THEN Reject("enc-length") /\ UNCHANGED <<pos, dir, dpos, idx, ents, comps, cidx>>
                        ELSE pc' = "payload" /\ pos' = L!Adv(file, pos, en.total) /\ cidx' = cidx + 1
                             /\ comps' = Append(comps, L!MkComp(en, pl, key)) /\ UNCHANGED <<dir, dpos, idx, ents, res>>
ReadStep == Sig \/ DirSize \/ EntryLen \/ Payload
Next == Grow \/ StartRead \/ ReadStep
Spec == Init /\ [][Next]_vars /\ WF_vars(StartRead) /\ WF_vars(ReadStep)

Refines == pc = "done" => res = ReadFile(file, key, chk)
Termination == <>(pc = "done")
Clauses == {"signature", "dirsize-short", "dir-short", "dir-no-sentinel", "dir-trailing", "entry-len-overlong", "entry-short",
            "declared-gt-stored", "desc-short", "tag-len-overlong", "dup-tag", "entry-mac", "entry-trailing", "address",
            "payload-short", "payload-mac", "enc-length", "file-trailing"}
OutcomeClass == pc = "done" => (res.ok \/ res.err \in Clauses)
\* variant: (cells of the directory still to consume, payloads still to read), lexicographic with the phase
Rank(p) == IF p = "grow" THEN 5 ELSE IF p = "sig" THEN 4 ELSE IF p = "dirsize" THEN 3 ELSE IF p = "entrylen" THEN 2 ELSE IF p = "payload" THEN 1 ELSE 0
Variant == [][ReadStep => \/ Rank(pc') < Rank(pc)
                          \/ (pc' = pc /\ pc = "entrylen" /\ Len(dir) - dpos' < Len(dir) - dpos)
                          \/ (pc' = pc /\ pc = "payload" /\ Len(ents) - cidx' < Len(ents) - cidx)]_vars
=============================================================================
