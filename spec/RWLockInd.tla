------------------------------ MODULE RWLockInd ------------------------------
(* Inductive-invariant argument for the reader-writer lock model RWLock.tla, in the
   form Apalache 0.58 can check (see RWLockInd.md; run by harness/apalache.py).

   RWLock.tla cannot be type-checked by Apalache as it stands (Info is a record that is
   applied to a computed label, Info[pc[t]]), so this module RESTATES the next-state
   relation of RWLock.tla action by action, with the label table Info replaced by the
   operators OpOf/LockOf.  The restatement is not trusted: MC_RWLockIndEq.tla has TLC
   check, on EVERY state of a two-thread instance that satisfies Roles (not only the
   reachable ones) and on the reachable states of 2 readers + 2 writers, that
       OpOf/LockOf = RWLock!Info,   Step(t) here = RWLock!Step(t) as a relation,
       Enabled(t) here = ENABLED RWLock!Step(t),   the properties here = the ones there.

   The number of passes is gone: `left[t]` is any natural number (the initial state gives
   every thread its own arbitrary number >= 1 of passes), and nothing below mentions a
   bound on it.  A result for this module therefore covers RWLock.tla for every value of
   Passes >= 1 (and threads with different numbers of passes); R and W stay parameters
   (fixed in the cfg file that harness/apalache.py writes). *)
EXTENDS Integers, FiniteSets

CONSTANTS
    \* @type: Int;
    R,
    \* @type: Int;
    W

VARIABLES
    \* @type: Int -> Str;
    pc,
    \* @type: Str -> Int;
    owner,
    \* @type: Int;
    rc,
    \* @type: Int;
    wc,
    \* @type: Int -> Int;
    left

vars == <<pc, owner, rc, wc, left>>

Readers == 1..R
Writers == (R + 1)..(R + W)
Threads == Readers \cup Writers
Locks   == {"rq", "nr", "nw", "rm", "wm"}

RLabels == {"ra_rq", "ra_nr", "ra_rm", "ra_nw", "ra_rm_rel", "ra_nr_rel", "ra_rq_rel", "r_cs",
            "rr_rm", "rr_nw_rel", "rr_rm_rel"}
WLabels == {"wa_wm", "wa_nr", "wa_wm_rel", "wa_nw", "w_cs", "wr_nw_rel", "wr_wm", "wr_nr_rel", "wr_wm_rel"}
Labels  == RLabels \cup WLabels \cup {"done"}

(* RWLock!Info, column by column (TLC: MC_RWLockIndEq!TableEq) *)
\* @type: Str => Str;
OpOf(l) == IF l \in {"ra_rq", "ra_nr", "ra_rm", "ra_nw", "rr_rm", "wa_wm", "wa_nr", "wa_nw", "wr_wm"} THEN "acquire"
           ELSE IF l \in {"ra_rm_rel", "ra_nr_rel", "ra_rq_rel", "rr_nw_rel", "rr_rm_rel",
                          "wa_wm_rel", "wr_nw_rel", "wr_nr_rel", "wr_wm_rel"} THEN "release"
           ELSE IF l \in {"r_cs", "w_cs"} THEN "cs" ELSE "none"
\* @type: Str => Str;
LockOf(l) == IF l \in {"ra_rq", "ra_rq_rel"} THEN "rq"
             ELSE IF l \in {"ra_nr", "ra_nr_rel", "wa_nr", "wr_nr_rel"} THEN "nr"
             ELSE IF l \in {"ra_nw", "rr_nw_rel", "wa_nw", "wr_nw_rel"} THEN "nw"
             ELSE IF l \in {"ra_rm", "ra_rm_rel", "rr_rm", "rr_rm_rel"} THEN "rm"
             ELSE IF l \in {"wa_wm", "wa_wm_rel", "wr_wm", "wr_wm_rel"} THEN "wm"
             ELSE "-"

TypeOK == /\ pc \in [Threads -> Labels]
          /\ owner \in [Locks -> Threads \cup {0}]
          /\ rc \in 0..R /\ wc \in 0..W
          /\ left \in [Threads -> Nat]

(* every thread has its own, arbitrary, number of passes *)
Init == /\ pc = [t \in Threads |-> IF t \in Readers THEN "ra_rq" ELSE "wa_wm"]
        /\ owner = [l \in Locks |-> 0]
        /\ rc = 0 /\ wc = 0
        /\ left \in [Threads -> Nat]
        /\ \A t \in Threads : left[t] >= 1

-----------------------------------------------------------------------------
(* the actions of RWLock.tla, verbatim except Info[from].lk ~> LockOf(from) *)
Goto(t, l) == pc' = [pc EXCEPT ![t] = l]
Acq(t, from) == /\ pc[t] = from
                /\ owner[LockOf(from)] = 0
                /\ owner' = [owner EXCEPT ![LockOf(from)] = t]
Rel(t, from) == /\ pc[t] = from
                /\ owner[LockOf(from)] # 0
                /\ owner' = [owner EXCEPT ![LockOf(from)] = 0]
Finish(t, first) == /\ left' = [left EXCEPT ![t] = left[t] - 1]
                    /\ Goto(t, IF left[t] = 1 THEN "done" ELSE first)

RA_Queue(t)     == Acq(t, "ra_rq") /\ Goto(t, "ra_nr") /\ UNCHANGED <<rc, wc, left>>
RA_Gate(t)      == Acq(t, "ra_nr") /\ Goto(t, "ra_rm") /\ UNCHANGED <<rc, wc, left>>
RA_SwitchIn(t)  == /\ Acq(t, "ra_rm")
                   /\ rc' = rc + 1
                   /\ Goto(t, IF rc + 1 = 1 THEN "ra_nw" ELSE "ra_rm_rel")
                   /\ UNCHANGED <<wc, left>>
RA_First(t)     == Acq(t, "ra_nw") /\ Goto(t, "ra_rm_rel") /\ UNCHANGED <<rc, wc, left>>
RA_SwitchOut(t) == Rel(t, "ra_rm_rel") /\ Goto(t, "ra_nr_rel") /\ UNCHANGED <<rc, wc, left>>
RA_GateRel(t)   == Rel(t, "ra_nr_rel") /\ Goto(t, "ra_rq_rel") /\ UNCHANGED <<rc, wc, left>>
RA_QueueRel(t)  == Rel(t, "ra_rq_rel") /\ Goto(t, "r_cs") /\ UNCHANGED <<rc, wc, left>>
R_CS(t)         == pc[t] = "r_cs" /\ Goto(t, "rr_rm") /\ UNCHANGED <<owner, rc, wc, left>>
RR_SwitchIn(t)  == /\ Acq(t, "rr_rm")
                   /\ rc' = rc - 1
                   /\ Goto(t, IF rc - 1 = 0 THEN "rr_nw_rel" ELSE "rr_rm_rel")
                   /\ UNCHANGED <<wc, left>>
RR_Last(t)      == Rel(t, "rr_nw_rel") /\ Goto(t, "rr_rm_rel") /\ UNCHANGED <<rc, wc, left>>
RR_SwitchOut(t) == Rel(t, "rr_rm_rel") /\ Finish(t, "ra_rq") /\ UNCHANGED <<rc, wc>>

RStep(t) == \/ RA_Queue(t) \/ RA_Gate(t) \/ RA_SwitchIn(t) \/ RA_First(t) \/ RA_SwitchOut(t)
            \/ RA_GateRel(t) \/ RA_QueueRel(t) \/ R_CS(t)
            \/ RR_SwitchIn(t) \/ RR_Last(t) \/ RR_SwitchOut(t)

WA_SwitchIn(t)  == /\ Acq(t, "wa_wm")
                   /\ wc' = wc + 1
                   /\ Goto(t, IF wc + 1 = 1 THEN "wa_nr" ELSE "wa_wm_rel")
                   /\ UNCHANGED <<rc, left>>
WA_First(t)     == Acq(t, "wa_nr") /\ Goto(t, "wa_wm_rel") /\ UNCHANGED <<rc, wc, left>>
WA_SwitchOut(t) == Rel(t, "wa_wm_rel") /\ Goto(t, "wa_nw") /\ UNCHANGED <<rc, wc, left>>
WA_Excl(t)      == Acq(t, "wa_nw") /\ Goto(t, "w_cs") /\ UNCHANGED <<rc, wc, left>>
W_CS(t)         == pc[t] = "w_cs" /\ Goto(t, "wr_nw_rel") /\ UNCHANGED <<owner, rc, wc, left>>
WR_ExclRel(t)   == Rel(t, "wr_nw_rel") /\ Goto(t, "wr_wm") /\ UNCHANGED <<rc, wc, left>>
WR_SwitchIn(t)  == /\ Acq(t, "wr_wm")
                   /\ wc' = wc - 1
                   /\ Goto(t, IF wc - 1 = 0 THEN "wr_nr_rel" ELSE "wr_wm_rel")
                   /\ UNCHANGED <<rc, left>>
WR_Last(t)      == Rel(t, "wr_nr_rel") /\ Goto(t, "wr_wm_rel") /\ UNCHANGED <<rc, wc, left>>
WR_SwitchOut(t) == Rel(t, "wr_wm_rel") /\ Finish(t, "wa_wm") /\ UNCHANGED <<rc, wc>>

WStep(t) == \/ WA_SwitchIn(t) \/ WA_First(t) \/ WA_SwitchOut(t) \/ WA_Excl(t) \/ W_CS(t)
            \/ WR_ExclRel(t) \/ WR_SwitchIn(t) \/ WR_Last(t) \/ WR_SwitchOut(t)

Step(t) == IF t \in Readers THEN RStep(t) ELSE WStep(t)

AllDone == \A t \in Threads : pc[t] = "done"
Terminated == AllDone /\ UNCHANGED vars

Next == (\E t \in Readers : RStep(t)) \/ (\E t \in Writers : WStep(t)) \/ Terminated

(* self-test variants of MC_RWLock.tla: a writer that does not take no_writers; a reader that
   does not release the readers' queue lock *)
BadWA_Excl(t) == pc[t] = "wa_nw" /\ Goto(t, "w_cs") /\ UNCHANGED <<owner, rc, wc, left>>
BadWStep(t) == \/ WA_SwitchIn(t) \/ WA_First(t) \/ WA_SwitchOut(t) \/ BadWA_Excl(t) \/ W_CS(t)
               \/ WR_ExclRel(t) \/ WR_SwitchIn(t) \/ WR_Last(t) \/ WR_SwitchOut(t)
BadNextNoExcl == (\E t \in Readers : RStep(t)) \/ (\E t \in Writers : BadWStep(t)) \/ Terminated
BadRA_QueueRel(t) == pc[t] = "ra_rq_rel" /\ Goto(t, "r_cs") /\ UNCHANGED <<owner, rc, wc, left>>
BadRStep(t) == \/ RA_Queue(t) \/ RA_Gate(t) \/ RA_SwitchIn(t) \/ RA_First(t) \/ RA_SwitchOut(t)
               \/ RA_GateRel(t) \/ BadRA_QueueRel(t) \/ R_CS(t)
               \/ RR_SwitchIn(t) \/ RR_Last(t) \/ RR_SwitchOut(t)
BadNextNoQueueRel == (\E t \in Readers : BadRStep(t)) \/ (\E t \in Writers : WStep(t)) \/ Terminated

-----------------------------------------------------------------------------
(* the properties of RWLock.tla (state predicates) *)
InCS(t)    == OpOf(pc[t]) = "cs"
Holding(t) == InCS(t) \/ pc[t] \in {"rr_rm", "wr_nw_rel"}
Mutex == \A w \in Writers : Holding(w) => \A t \in Threads \ {w} : ~Holding(t)
ReleaseHeld == \A t \in Threads : OpOf(pc[t]) = "release" => owner[LockOf(pc[t])] # 0

Counted(t) == IF t \in Readers
              THEN pc[t] \in {"ra_nw", "ra_rm_rel", "ra_nr_rel", "ra_rq_rel", "r_cs", "rr_rm"}
              ELSE pc[t] \in {"wa_nr", "wa_wm_rel", "wa_nw", "w_cs", "wr_nw_rel", "wr_wm"}
CountersOK == /\ rc = Cardinality({t \in Readers : Counted(t)})
              /\ wc = Cardinality({t \in Writers : Counted(t)})
              /\ (\E t \in Readers : InCS(t)) => owner["nw"] \in Readers
              /\ (\E t \in Writers : InCS(t)) => owner["nw"] \in Writers /\ owner["nr"] \in Writers
              /\ \A t \in Threads : left[t] = 0 <=> pc[t] = "done"

(* ENABLED Step(t) written out (Apalache has no ENABLED; TLC: MC_RWLockIndEq!EnabledEq) *)
Enabled(t) == /\ pc[t] \in (IF t \in Readers THEN RLabels ELSE WLabels)
              /\ OpOf(pc[t]) = "acquire" => owner[LockOf(pc[t])] = 0
              /\ OpOf(pc[t]) = "release" => owner[LockOf(pc[t])] # 0
(* exactly TLC's notion for RWLock!Next: a state without successor; Terminated makes
   the all-done state a non-deadlock *)
NoDeadlock == AllDone \/ \E t \in Threads : Enabled(t)

-----------------------------------------------------------------------------
(* THE INDUCTIVE INVARIANT.  At(t, S): the next lock call of t is one of S. *)
At(t, S) == pc[t] \in S

\* where a thread has incremented its light switch and not yet decremented it (= RWLock!Counted)
RCounted == {"ra_nw", "ra_rm_rel", "ra_nr_rel", "ra_rq_rel", "r_cs", "rr_rm"}
WCounted == {"wa_nr", "wa_wm_rel", "wa_nw", "w_cs", "wr_nw_rel", "wr_wm"}

\* J1  readers run reader code, writers writer code; done iff no pass left
Roles == /\ \A t \in Readers : pc[t] \in RLabels \cup {"done"}
         /\ \A t \in Writers : pc[t] \in WLabels \cup {"done"}
         /\ \A t \in Threads : left[t] = 0 <=> pc[t] = "done"

\* J2  the three locks that are released by the thread that acquired them (in the same call):
\*     thread t owns L exactly while its pc is between the acquire and the release of L
OwnQueue  == /\ owner["rq"] \in Readers \cup {0}
             /\ \A t \in Readers : owner["rq"] = t <=>
                    At(t, {"ra_nr", "ra_rm", "ra_nw", "ra_rm_rel", "ra_nr_rel", "ra_rq_rel"})
OwnRMutex == /\ owner["rm"] \in Readers \cup {0}
             /\ \A t \in Readers : owner["rm"] = t <=> At(t, {"ra_nw", "ra_rm_rel", "rr_nw_rel", "rr_rm_rel"})
OwnWMutex == /\ owner["wm"] \in Writers \cup {0}
             /\ \A t \in Writers : owner["wm"] = t <=> At(t, {"wa_nr", "wa_wm_rel", "wr_nr_rel", "wr_wm_rel"})

\* J3  the counters count
Counters == /\ rc = Cardinality({t \in Readers : At(t, RCounted)})
            /\ wc = Cardinality({t \in Writers : At(t, WCounted)})

\* J4  the first one in sees 1, the last one out sees 0
Edges == /\ \A t \in Readers : (pc[t] = "ra_nw" => rc = 1) /\ (pc[t] = "rr_nw_rel" => rc = 0)
         /\ \A t \in Writers : (pc[t] = "wa_nr" => wc = 1) /\ (pc[t] = "wr_nr_rel" => wc = 0)

\* J5  the two gate locks.  A gate is taken by the first thread of a group and released by the
\*     last one, so `owner` is not the releasing thread; what is invariant is WHICH GROUP holds it.
\*     The readers as a group hold no_writers iff their switch is on: some reader is counted and
\*     the first one is past its acquire of nw, or the last one is about to release it.
ReadersHoldNW == \/ rc >= 1 /\ \A t \in Readers : pc[t] # "ra_nw"
                 \/ \E t \in Readers : pc[t] = "rr_nw_rel"
WritersHoldNR == \/ wc >= 1 /\ \A t \in Writers : pc[t] # "wa_nr"
                 \/ \E t \in Writers : pc[t] = "wr_nr_rel"
GateNW == /\ owner["nw"] \in Readers <=> ReadersHoldNW
          /\ \A t \in Writers : owner["nw"] = t <=> At(t, {"w_cs", "wr_nw_rel"})
GateNR == /\ owner["nr"] \in Writers <=> WritersHoldNR
          /\ \A t \in Readers : owner["nr"] = t <=> At(t, {"ra_rm", "ra_nw", "ra_rm_rel", "ra_nr_rel"})

IndInv == TypeOK /\ Roles /\ OwnQueue /\ OwnRMutex /\ OwnWMutex /\ Counters /\ Edges /\ GateNW /\ GateNR

(* an arbitrary type-correct state that satisfies IndInv: the pre-state of the inductive step *)
Arbitrary == /\ pc \in [Threads -> Labels]
             /\ owner \in [Locks -> Threads \cup {0}]
             /\ rc \in 0..R /\ wc \in 0..W
             /\ left \in [Threads -> Nat]
IndInit == Arbitrary /\ IndInv

(* what the invariant implies (checked on IndInit with --length=0) *)
Safety == Mutex /\ ReleaseHeld /\ NoDeadlock /\ CountersOK

(* self-test of the implication: without the conjunct about no_writers the rest - still a true
   statement about the lock - does not imply Mutex; Apalache must say so *)
WeakInv  == TypeOK /\ Roles /\ OwnQueue /\ OwnRMutex /\ OwnWMutex /\ Counters /\ Edges /\ GateNR
WeakInit == Arbitrary /\ WeakInv
=============================================================================
