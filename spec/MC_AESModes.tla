----------------------------- MODULE MC_AESModes -----------------------------
(* Bounded instance of AESModes over the tiny cipher: for every mode, direction, key, IV / initial counter
   (all counter values, so that carry and roll-over to zero are reached), every stream of length <= MaxLen
   (all streams over the cell alphabet up to FullLen, fixed patterns above) and EVERY way of cutting it into
   calls (sizes incl. 0 and sizes the mode must reject), the concatenation of the outputs of the accepted
   calls equals the SP 800-38A whole-message function of the consumed prefix, and a call is rejected iff
   its size is not admissible for the mode (one block; a multiple of the segment size; anything).
   WRONG selects a deliberately wrong state machine for the self-test (TLC must refute it). *)
EXTENDS AESModes, TinyCipher, TLC
CONSTANTS FullLen, MaxLen, MaxCalls, AllIvs, WRONG
VARIABLES m, dir, S, pos, st, out, ncalls, lastn, lasterr

RECURSIVE AllSeqs(_)
AllSeqs(n) == IF n = 0 THEN {<<>>} ELSE {Append(s, c) : s \in AllSeqs(n - 1), c \in 0..(CM - 1)}
PA == <<1,3,0,2,2,1,0,3,3,1,2,0,0,3,1,1,2,3,0,1,3,2>>
PB == <<0,0,1,0,3,3,2,0,1,1,0,0,0,2,3,1,0,2,2,0,0,3>>
Streams == UNION {AllSeqs(n) : n \in 0..FullLen} \cup UNION {{Take(PA, n), Take(PB, n)} : n \in (FullLen + 1)..MaxLen}
Blocks == TinyBlocks(BLK)
SomeIvs == {Zeros(BLK), Fill(BLK, CM - 1), Take(PA, BLK)}
Ivs(mode) == IF mode = "ctr" \/ AllIvs THEN Blocks ELSE SomeIvs
ModeCfgs ==
    {[mode |-> "ecb", k |-> k, iv |-> <<>>, seg |-> 0] : k \in TinyKeys}
    \cup UNION {{[mode |-> md, k |-> k, iv |-> iv, seg |-> 0] : k \in TinyKeys, iv \in Ivs(md)} : md \in {"cbc", "ofb", "ctr"}}
    \cup {[mode |-> "cfb", k |-> k, iv |-> iv, seg |-> s] : k \in TinyKeys, iv \in Ivs("cfb"), s \in 1..BLK}

\* deliberately wrong variants (self-test)
BadInc(c) == [c EXCEPT ![Len(c)] = (c[Len(c)] + 1) % CM]                \* no carry into the next cell
RECURSIVE BadCtrFill(_, _, _, _)
BadCtrFill(k, ctr, rem, n) == IF Len(rem) >= n THEN [reg |-> ctr, rem |-> rem] ELSE BadCtrFill(k, BadInc(ctr), rem \o E(k, ctr), n)
MCCall(s, d, c) ==
    IF WRONG = "ctr-nocarry" /\ s.mode = "ctr" THEN
        LET f == BadCtrFill(s.k, s.reg, s.rem, Len(c)) IN Ok([s EXCEPT !.reg = f.reg, !.rem = Drop(f.rem, Len(c))], XorSeq(c, f.rem))
    ELSE IF WRONG = "cbc-dec-chains-plaintext" /\ s.mode = "cbc" /\ d = "dec" /\ Len(c) = BLK THEN
        LET p == XorSeq(D(s.k, c), s.reg) IN Ok([s EXCEPT !.reg = p], p)
    ELSE Call(s, d, c)

Init == /\ m \in ModeCfgs /\ dir \in {"enc", "dec"} /\ S \in Streams
        /\ pos = 0 /\ st = NewMode(m) /\ out = <<>> /\ ncalls = 0 /\ lastn = 0 /\ lasterr = FALSE
Next == /\ ncalls < MaxCalls
        /\ \E n \in 0..(Len(S) - pos) :
             LET r == MCCall(st, dir, SubSeq(S, pos + 1, pos + n)) IN
               /\ lastn' = n /\ lasterr' = (r.err # "") /\ ncalls' = ncalls + 1
               /\ st' = r.st /\ out' = out \o r.out
               /\ pos' = IF r.err = "" THEN pos + n ELSE pos
        /\ UNCHANGED <<m, dir, S>>

Admissible(n) == IF Class(m.mode) = "block" THEN n = BLK ELSE n % Granule(m) = 0
ChunkingIndependent == out = Whole(m, dir, Take(S, pos))
RejectsExactlyBadSizes == ncalls > 0 => (lasterr <=> ~Admissible(lastn))
\* counter arithmetic: the object's step-by-step increment equals addition mod CM^BLK
ASSUME \A c \in TinyBlocks(BLK) : Inc(c) = CtrPlus(c, 1) /\ Inc(Inc(Inc(c))) = CtrPlus(c, 3)
ASSUME Inc(Fill(BLK, CM - 1)) = Zeros(BLK)
=============================================================================
