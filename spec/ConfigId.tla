------------------------------ MODULE ConfigId ------------------------------
(* C12.  Configuration identifiers: derivation from the 0x0620 naming values, the text form at CHARACTER level
   (texts are sequences of character codes), parsing with the two patterns in their order.

   identifier  [c, p, d, v, n]: customer, project, device (None = -1 = unknown/absent), version,
               n = [some |-> 0|1, s |-> characters]  (some = 0: no name; the empty name "" is some = 1, s = <<>>)
   Widths are parameters so that TLC can exhaust a reduced instance (MC_ConfigId); the real instance is 5-4-4-2, UNK = 9999. *)
EXTENDS Naturals, Integers, Sequences, FiniteSets
CONSTANTS WC, WP, WD, WV,     \* digits of customer, project, device, version
          UNK                 \* the 'unknown' code (9999): stored as None, printed as UNK

None == -1
NoName == [some |-> 0, s |-> <<>>]
Name(s) == [some |-> 1, s |-> s]
Id(c, p, d, v, n) == [c |-> c, p |-> p, d |-> d, v |-> v, n |-> n]
Unk(x) == IF x = UNK THEN None ELSE x
Mk(c, p, d, v, n) == Id(Unk(c), Unk(p), Unk(d), v, n)            \* the constructor maps the unknown code to None
IsScheme(i) == i.c # None                                        \* numeric ("Baltech") naming scheme
IsDevSettings(i) == i.d = 0                                      \* device 0 => device-settings form

RECURSIVE Pow10(_)
Pow10(e) == IF e = 0 THEN 1 ELSE 10 * Pow10(e - 1)
RECURSIVE NDigits(_)
NDigits(n) == IF n < 10 THEN 1 ELSE 1 + NDigits(n \div 10)
Mat(f, n) == SubSeq(f, 1, n)
\* decimal digits, zero padded to AT LEAST w characters
Zp(n, w) == LET k == IF NDigits(n) > w THEN NDigits(n) ELSE w
            IN  Mat([j \in 1..k |-> 48 + ((n \div Pow10(k - j)) % 10)], k)
NL == 10
SP == 32
DASH == 45
VerOpen == <<32, 40, 118, 101, 114, 115, 105, 111, 110, 32>>      \* " (version "
VerClose == 41                                                    \* ")"
HasNL(s) == \E j \in DOMAIN s : s[j] = NL

\* ------------------------------------------------------------------ domain of the round-trip property
InRange(x, w) == x \in 0..(Pow10(w) - 1)
GoodName(n) == n.some = 0 \/ (Len(n.s) > 0 /\ ~HasNL(n.s))        \* absent, or non-empty single-line text
InDomain(i) ==
    /\ InRange(i.v, WV) /\ GoodName(i.n)
    /\ \/ /\ InRange(i.c, WC) /\ i.c # UNK                        \* numeric scheme; project/device may be unknown
          /\ (i.p = None \/ (InRange(i.p, WP) /\ i.p # UNK))
          /\ (i.d = None \/ (InRange(i.d, WD) /\ i.d # UNK))
       \/ /\ i.c = None /\ i.p = None /\ i.d = None /\ i.n.some = 1   \* name-only form
Printable(i) == i.v >= 0 /\ (IF IsScheme(i) THEN i.c >= 0 /\ i.p >= None /\ i.d >= None ELSE i.n.some = 1)

\* ------------------------------------------------------------------ Print
NumHead(i) == Zp(i.c, WC) \o <<DASH>> \o Zp(IF i.p = None THEN UNK ELSE i.p, WP) \o <<DASH>>
           \o Zp(IF i.d = None THEN UNK ELSE i.d, WD) \o <<DASH>> \o Zp(i.v, WV)
PrintId(i) == IF IsScheme(i) THEN NumHead(i) \o (IF i.n.some = 1 /\ Len(i.n.s) > 0 THEN <<SP>> \o i.n.s ELSE <<>>)
            ELSE i.n.s \o VerOpen \o Zp(i.v, WV) \o <<VerClose>>

\* ------------------------------------------------------------------ Parse (patterns match a PREFIX of the text, as re.match)
\* decimal digits as the regular expression's \d and int() see them (ASCII and the Unicode blocks the harness uses)
DigitVal(ch) == IF ch \in 48..57 THEN ch - 48
                ELSE IF ch \in 1632..1641 THEN ch - 1632           \* Arabic-Indic
                ELSE IF ch \in 1776..1785 THEN ch - 1776           \* Extended Arabic-Indic
                ELSE IF ch \in 2406..2415 THEN ch - 2406           \* Devanagari
                ELSE IF ch \in 65296..65305 THEN ch - 65296        \* Fullwidth
                ELSE -1
AllDigits(t, a, w) == \A j \in a..(a + w - 1) : DigitVal(t[j]) >= 0
RECURSIVE NumAcc(_, _, _, _)
NumAcc(t, a, w, acc) == IF w = 0 THEN acc ELSE NumAcc(t, a + 1, w - 1, acc * 10 + DigitVal(t[a]))
Num(t, a, w) == NumAcc(t, a, w, 0)
HW == WC + WP + WD + WV + 3                                       \* length of ddddd-dddd-dddd-dd
PC == 1
PP == WC + 2
PD == WC + WP + 3
PV == WC + WP + WD + 4
IsHead(t) == /\ Len(t) >= HW
             /\ AllDigits(t, PC, WC) /\ t[PP - 1] = DASH /\ AllDigits(t, PP, WP) /\ t[PD - 1] = DASH
             /\ AllDigits(t, PD, WD) /\ t[PV - 1] = DASH /\ AllDigits(t, PV, WV)
\* last index of the line that contains position a (a - 1 if the line is empty)
LineEnd(t, a) == LET nls == {j \in a..Len(t) : t[j] = NL} IN
                 IF nls = {} THEN Len(t) ELSE (CHOOSE j \in nls : \A m \in nls : j <= m) - 1
VS == Len(VerOpen) + WV + 1                                       \* length of " (version dd)"
IsVerAt(t, q) == /\ q + VS <= Len(t)                              \* " (version dd)" occupies q+1 .. q+VS
                 /\ SubSeq(t, q + 1, q + Len(VerOpen)) = VerOpen
                 /\ AllDigits(t, q + Len(VerOpen) + 1, WV)
                 /\ t[q + VS] = VerClose
NoId == Id(None, None, None, 0, NoName)
ParseId(t) ==
    IF IsHead(t) THEN                                             \* 1st pattern: ddddd-dddd-dddd-dd[ name]
        LET n == IF Len(t) > HW /\ t[HW + 1] = SP THEN Name(SubSeq(t, HW + 2, LineEnd(t, HW + 2))) ELSE NoName
        IN  [ok |-> TRUE, id |-> Mk(Num(t, PC, WC), Num(t, PP, WP), Num(t, PD, WD), Num(t, PV, WV), n)]
    ELSE LET e  == LineEnd(t, 1)                                  \* 2nd pattern: name (version dd), greedy name
             qs == {q \in 0..(e - VS) : IsVerAt(t, q)}            \* inside the first line: '.' does not match a line feed
         IN  IF qs = {} THEN [ok |-> FALSE, id |-> NoId]          \* the format error
             ELSE LET q == CHOOSE x \in qs : \A y \in qs : y <= x IN
                  [ok |-> TRUE, id |-> Id(None, None, None, Num(t, q + Len(VerOpen) + 1, WV), Name(SubSeq(t, 1, q)))]

\* canonical texts, defined on the text alone (ASCII digits, nothing after the identifier, single line, non-empty name)
AsciiDigits(t, a, w) == \A j \in a..(a + w - 1) : t[j] \in 48..57
CanonNumeric(t) == /\ IsHead(t) /\ ~HasNL(t)
                   /\ AsciiDigits(t, PC, WC) /\ AsciiDigits(t, PP, WP) /\ AsciiDigits(t, PD, WD) /\ AsciiDigits(t, PV, WV)
                   /\ Num(t, PC, WC) # UNK
                   /\ (Len(t) = HW \/ (Len(t) > HW + 1 /\ t[HW + 1] = SP))
CanonNameOnly(t) == /\ ~IsHead(t) /\ ~HasNL(t) /\ Len(t) > VS
                    /\ IsVerAt(t, Len(t) - VS) /\ AsciiDigits(t, Len(t) - WV, WV)
Canonical(t) == CanonNumeric(t) \/ CanonNameOnly(t)
\* the one ambiguity of the text format: a name-only identifier whose name begins like a numeric identifier
\* prints a text that the FIRST pattern claims
Ambiguous(i) == ~IsScheme(i) /\ i.n.some = 1 /\ IsHead(i.n.s)

\* ------------------------------------------------------------------ derivation from the naming values of key 0x0620
\* V: sequence of 7 cells [has |-> 0|1, b |-> bytes]: 01 customer, 02 device, 03 device-settings name,
\*    04 device-settings version, 05 project, 06 project-settings name, 07 project-settings version
RECURSIVE BEAcc(_, _, _)
BEAcc(b, j, acc) == IF j > Len(b) THEN acc ELSE BEAcc(b, j + 1, acc * 256 + b[j])
BE(b) == BEAcc(b, 1, 0)                                           \* int.from_bytes(b, "big")
ErrPrj == "MissingProjectSettingsNameError"
ErrDev == "MissingDeviceSettingsNameError"
Ok(i) == [ok |-> TRUE, id |-> i, err |-> ""]
Err(e) == [ok |-> FALSE, id |-> NoId, err |-> e]
\* strict UTF-8 (bytes.decode()): shortest form only, no surrogates, at most U+10FFFF, nothing dropped (no signature handling)
Cont(b, j) == j <= Len(b) /\ b[j] \in 128..191
RECURSIVE U8(_, _, _)
U8(b, j, acc) ==
    IF j > Len(b) THEN [ok |-> TRUE, s |-> acc]
    ELSE LET c == b[j] IN
         IF c < 128 THEN U8(b, j + 1, Append(acc, c))
         ELSE IF c \in 194..223 /\ Cont(b, j + 1) THEN U8(b, j + 2, Append(acc, (c - 192) * 64 + (b[j + 1] - 128)))
         ELSE IF /\ c \in 224..239 /\ Cont(b, j + 1) /\ Cont(b, j + 2)
                 /\ (c = 224 => b[j + 1] >= 160) /\ (c = 237 => b[j + 1] <= 159)
              THEN U8(b, j + 3, Append(acc, (c - 224) * 4096 + (b[j + 1] - 128) * 64 + (b[j + 2] - 128)))
         ELSE IF /\ c \in 240..244 /\ Cont(b, j + 1) /\ Cont(b, j + 2) /\ Cont(b, j + 3)
                 /\ (c = 240 => b[j + 1] >= 144) /\ (c = 244 => b[j + 1] <= 143)
              THEN U8(b, j + 4, Append(acc, (c - 240) * 262144 + (b[j + 1] - 128) * 4096 + (b[j + 2] - 128) * 64 + (b[j + 3] - 128)))
         ELSE [ok |-> FALSE, s |-> <<>>]
Utf8(b) == U8(b, 1, <<>>)
ErrUtf == "UnicodeDecodeError"                                    \* what the library raises for an undecodable name (pinned)
Undecodable(cell) == cell.has = 1 /\ ~Utf8(cell.b).ok
NameOf(cell) == IF cell.has = 1 THEN Name(Utf8(cell.b).s) ELSE NoName
Dev0(V) == IF V[2].has = 1 THEN BE(V[2].b) ELSE 0
Fallback(v, n, e) == IF n.some = 1 /\ Len(n.s) > 0 THEN Ok(Id(None, None, None, v, n)) ELSE Err(e)   \* name-only form
DerivePrj(V) ==
    IF V[7].has = 0 THEN Err(ErrPrj)
    ELSE IF Undecodable(V[6]) THEN Err(ErrUtf)
    ELSE IF V[1].has = 1 /\ V[5].has = 1 THEN Ok(Mk(BE(V[1].b), BE(V[5].b), Dev0(V), BE(V[7].b), NameOf(V[6])))
    ELSE Fallback(BE(V[7].b), NameOf(V[6]), ErrPrj)
DeriveDev(V) ==
    IF V[4].has = 0 THEN Err(ErrDev)
    ELSE IF Undecodable(V[3]) THEN Err(ErrUtf)
    ELSE IF V[1].has = 1 THEN Ok(Mk(BE(V[1].b), 0, Dev0(V), BE(V[4].b), NameOf(V[3])))
    ELSE Fallback(BE(V[4].b), NameOf(V[3]), ErrDev)
Derive(which, V) == IF which = "prj" THEN DerivePrj(V) ELSE DeriveDev(V)
=============================================================================
