---------------------------- MODULE MC_RWLockAbs ----------------------------
(* the abstract lock on its own: Mutex is an invariant, ReadersNeverShare is not *)
EXTENDS RWLockAbs
=============================================================================
