------------------------------ MODULE Trace_Bf3 ------------------------------
(* C->S for the BF3 container: every recorded public call of the real library is judged by the
   concrete instance of the specification.  Events (ndjson):
     bf3.to_binary  comps, off, key, out                       out = Serialize (byte-exact, C03/C01)
     bf3.write      comments, comps, key, text, disk(0/1)      text = envelope(Sig ++ Serialize) (C01/C03)
     bf3.read       text, key, check, disk, kind, comps, comments [, auth_comps, auth_comments, has_auth]
                                                               verdict and content = ReadText ; Parse (C01/C04/C05)
   The verdict is total: "ok" or the name of the first failing clause. *)
EXTENDS Bf3Concrete, Json, IOUtils, TLC
Trace == ndJsonDeserialize(IOEnv.TRACE_FILE)
VARIABLE i

ToBinaryVerdict(ev) ==
    IF ev.out = L!Serialize(ev.comps, ev.off, ev.key) THEN "ok" ELSE "serialize-bytes"

WriteVerdict(ev) ==
    LET bin == Bf3Sig \o L!Serialize(ev.comps, 5, ev.key)
        t   == IF ev.disk = 1 THEN FromDisk(ev.text) ELSE ev.text
    IN  IF ~TextMatches(t, ev.comments, bin) THEN "text-envelope"
        ELSE IF ev.disk = 1 /\ ev.text # ToDisk(t) THEN "crlf-translation"
        ELSE "ok"

ReadVerdict(ev) ==
    LET t  == IF ev.disk = 1 THEN FromDisk(ev.text) ELSE ev.text
        rt == ReadText(t)
    IN  IF ~rt.ok THEN (IF ev.kind = "ok" THEN "accepted-bad-text" ELSE "ok")
        ELSE IF Len(rt.bin) < 5 \/ SubSeq(rt.bin, 1, 5) # Bf3Sig THEN (IF ev.kind = "ok" THEN "accepted-bad-signature" ELSE "ok")
        ELSE LET p == L!Parse(rt.bin, 5, ev.key, ev.check) IN
             IF ~p.ok THEN (IF ev.kind = "ok" THEN "accepted-malformed:" \o p.err ELSE "ok")
             ELSE IF ev.kind # "ok" THEN "rejected-wellformed"
             ELSE IF ev.comps # p.comps THEN "content-differs-from-fields"
             ELSE IF ev.comments # rt.comments THEN "comments-differ"
             ELSE "ok"
\* C04: an accepted damaged file must carry the authentic content (independent of the parser model)
\* (an encrypted component comes back zero-padded to the block size: equal up to its declared length)
SameComp(a, b) == /\ a.desc = b.desc /\ a.alen = b.alen /\ a.enc = b.enc
                  /\ IF a.enc THEN Len(a.blob) >= a.alen /\ Len(b.blob) >= a.alen /\ SubSeq(a.blob, 1, a.alen) = SubSeq(b.blob, 1, a.alen)
                     ELSE a.blob = b.blob
SameComps(x, y) == Len(x) = Len(y) /\ \A j \in 1..Len(x) : SameComp(x[j], y[j])
NoSilentAccept(ev) == (ev.has_auth = 1 /\ ev.kind = "ok") => (SameComps(ev.comps, ev.auth_comps) /\ ev.comments = ev.auth_comments)

Verdict(ev) ==
    IF ev.op = "bf3.to_binary" THEN ToBinaryVerdict(ev)
    ELSE IF ev.op = "bf3.write" THEN WriteVerdict(ev)
    ELSE IF ev.op = "bf3.read" THEN (IF ~NoSilentAccept(ev) THEN "silent-accept" ELSE ReadVerdict(ev))
    ELSE "unknown-op"

Init == i = 1
Next == /\ i <= Len(Trace)
        /\ LET v == Verdict(Trace[i]) IN IF v = "ok" THEN TRUE ELSE PrintT(<<"REJ", Trace[i].tid, v, "">>)
        /\ i' = i + 1
        /\ IF i = Len(Trace) THEN PrintT(<<"DONE", i>>) ELSE TRUE
=============================================================================
