------------------------------ MODULE MC_Feeder ------------------------------
(* Bounded instance of Feeder over the tiny cipher.  For every mode configuration (ECB, CBC = block;
   CFB with every segment size 1..BLK = segment; OFB, CTR = stream), direction, padding in
   {default, none}, every stream of 0..MaxBlocks blocks + 0..BLK-1 residual cells (fixed patterns; for
   Decrypter additionally the Encrypter's output for each pattern, i.e. validly padded cipher text) and
   EVERY split of the stream into <= MaxChunks chunks (sizes incl. 0) followed by feed(None):
     Outcome        concatenated outputs and error flag = FeederSpec (whole padded stream through the
                    SP 800-38A function, or the error outcome)
     PrefixSoFar    before the final step the output is a prefix of the final result
     KeepsBack      after every feed fewer than two blocks (block/segment: < BLK + granule) are buffered
     RoundTrip      Decrypter(default) on Encrypter(default) output returns the plain text
     AfterFinish    a finished feeder rejects feed(x) and feed(None)
   GEN = TRUE keeps the chunk sizes in the state and prints each complete chunking once (S->C).
   WRONG selects a deliberately wrong feeder for the self-test. *)
EXTENDS Feeder, TinyCipher, TLC
CONSTANTS MaxBlocks, MaxChunks, GEN, WRONG, ModeSel
VARIABLES m, dir, pad, S, src, rest, nch, f, out, err, done, spec, sizes, post

PA == <<1,3,0,2,2,1,0,3,3,1,2,0,0,3,1,1,2,3,0,1,3,2>>
PB == <<0,0,1,0,3,3,2,0,1,1,0,0,0,2,3,1,0,2,2,0,0,3>>
PC == <<2,2,1,3,0,1,2,1,0,2,1,2,3,0,2,1,1,0,3,2,2,1>>      \* prefixes end in the pad-like cells 1 and 2 at many lengths
MaxLen == MaxBlocks * BLK + BLK - 1
Plain == UNION {{Take(PA, n), Take(PB, n), Take(PC, n), Zeros(n)} : n \in 0..MaxLen}
ModeCfgs ==
    {[mode |-> md, k |-> 1, iv |-> IF md = "ecb" THEN <<>> ELSE IF md = "ctr" THEN Fill(BLK, CM - 1) ELSE Take(PC, BLK), seg |-> 0]
        : md \in {"ecb", "cbc", "ofb", "ctr"} \cap ModeSel}
    \cup {[mode |-> "cfb", k |-> 2, iv |-> Take(PA, BLK), seg |-> s] : s \in IF "cfb" \in ModeSel THEN 1..BLK ELSE {}}
\* input streams [s |-> stream, src |-> plain text it is the Encrypter(default) output of, or <<>>]
Streams(mc, d) ==
    {[s |-> x, src |-> <<>>] : x \in Plain}
    \cup (IF d = "enc" THEN {}
          ELSE {[s |-> FeederSpec(mc, "enc", "default", x).out, src |-> x] : x \in ({Take(PA, n) : n \in 1..MaxLen} \cup {Take(PC, n) : n \in 1..MaxLen})})

\* deliberately wrong variants (self-test)
MCFeed(ff, chunk) ==
    IF WRONG = "keeps-nothing-back" /\ ~ff.fin THEN        \* consumes everything it can, no block kept for the padding
        LET b  == ff.buf \o chunk
            cc == CanConsume(ff.ms, Len(b))
            r  == Call(ff.ms, ff.dir, Take(b, cc))
        IN  IF cc = 0 THEN [f |-> [ff EXCEPT !.buf = b], out |-> <<>>, err |-> ""]
            ELSE [f |-> [ff EXCEPT !.ms = r.st, !.buf = Drop(b, cc)], out |-> r.out, err |-> ""]
    ELSE Feed(ff, chunk)
MCFinal(ff) ==
    IF WRONG = "final-ignores-mode-state" /\ ~ff.fin THEN Final([ff EXCEPT !.ms = NewMode(m)])
    ELSE Final(ff)

Init == /\ m \in ModeCfgs
        /\ dir \in (IF GEN THEN {"enc"} ELSE {"enc", "dec"}) /\ pad \in (IF GEN THEN {"default"} ELSE {"default", "none"})
        /\ \E x \in (IF GEN THEN {[s |-> Zeros(n), src |-> <<>>] : n \in 0..MaxLen} ELSE Streams(m, dir)) : S = x.s /\ src = x.src
        /\ rest = S /\ nch = 0 /\ f = NewFeeder(NewMode(m), dir, pad) /\ out = <<>> /\ err = "" /\ done = FALSE
        /\ spec = FeederSpec(m, dir, pad, S) /\ sizes = <<>> /\ post = 0

FeedAct == /\ ~done /\ nch < MaxChunks
           /\ \E n \in 0..Len(rest) :
                /\ (nch = MaxChunks - 1 => n = Len(rest))
                /\ LET r == MCFeed(f, Take(rest, n)) IN
                     /\ f' = r.f /\ out' = out \o r.out /\ err' = r.err
                     /\ rest' = Drop(rest, n) /\ nch' = nch + 1
                     /\ sizes' = IF GEN THEN Append(sizes, n) ELSE sizes
           /\ UNCHANGED <<m, dir, pad, S, src, done, spec, post>>
FinalAct == /\ ~done /\ rest = <<>>
            /\ LET r == MCFinal(f) IN f' = r.f /\ out' = out \o r.out /\ err' = r.err
            /\ done' = TRUE
            /\ IF GEN THEN PrintT(<<"SHAPE", Len(S), sizes>>) ELSE TRUE
            /\ UNCHANGED <<m, dir, pad, S, src, rest, nch, spec, sizes, post>>
AfterAct == /\ done /\ err = "" /\ post = 0
            /\ post' = IF Feed(f, <<1>>).err # "" /\ Feed(f, <<>>).err # "" /\ Final(f).err # "" THEN 1 ELSE 2
            /\ UNCHANGED <<m, dir, pad, S, src, rest, nch, f, out, err, done, spec, sizes>>
Next == FeedAct \/ FinalAct \/ AfterAct

IsPrefix(a, b) == Len(a) <= Len(b) /\ a = Take(b, Len(a))
Outcome     == done => (out = spec.out /\ err = spec.err)
PrefixSoFar == ~done => (err = "" /\ IsPrefix(out, spec.out))
KeepsBack   == ~done => Len(f.buf) < BLK + (IF Class(m.mode) = "stream" THEN 1 ELSE Granule(m))
RoundTrip   == (done /\ src # <<>> /\ pad = "default") => (err = "" /\ out = src)
AfterFinish == post # 2
\* the lenient unpadding agrees with PKCS#7 on validly padded data; and it is lenient (documented deviation)
ASSUME \A n \in 0..(2 * BLK) : \A x \in {Take(PA, n), Take(PB, n), Zeros(n)} :
           ValidPkcs7(PKCS7(x)) /\ UnpadStrict(PKCS7(x)) = SpecOk(x) /\ UnpadLenient(PKCS7(x)) = SpecOk(x)
ASSUME UnpadLenient(Zeros(BLK)).err = "" /\ UnpadStrict(Zeros(BLK)).err = "error"
=============================================================================
