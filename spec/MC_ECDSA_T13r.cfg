\* generated from harness/eclib.py TINY (the checks write the same text into their scratch directory); standalone run:
\*   java -XX:+UseSerialGC -cp /opt/veriftools/tla/tla2tools.jar:/opt/veriftools/tla/CommunityModules-deps.jar tlc2.TLC -deadlock -config MC_ECDSA_T13r.cfg MC_ECDSA.tla
INIT Init
NEXT Next
CONSTANTS P=13 A=7 B=6 GX=1 GY=1 N=11 H=1
INVARIANT SignVerifies
INVARIANT SignReduces
INVARIANT ExactAccept
INVARIANT RangeReject
INVARIANT InfUnique
