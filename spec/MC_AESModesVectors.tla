-------------------------- MODULE MC_AESModesVectors --------------------------
(* NIST SP 800-38A Appendix F known answers for AES-128 (F.1.1/F.1.2 ECB, F.2.1/F.2.2 CBC, F.3.7/F.3.8 CFB8 - the
   18 bytes the standard lists -, F.3.13/F.3.14 CFB128, F.4.1/F.4.2 OFB, F.5.1/F.5.2 CTR), evaluated by TLC on the
   CONCRETE instance of AESModes (E, D = FIPS-197 AES of AES.tla): the whole-message functions, and the mode
   objects driven with a few chunkings.  The literals were typed in from the standard and additionally agree
   with OpenSSL 3.0 (`openssl enc -aes-128-<mode> -nopad`); the sandbox has no network to re-fetch the PDF. *)
EXTENDS AES, TLC
M == INSTANCE AESModes WITH BLK <- 16, CM <- 256, E <- EncBlockRK, D <- DecBlockRK
KEY == <<43,126,21,22,40,174,210,166,171,247,21,136,9,207,79,60>>
IV  == <<0,1,2,3,4,5,6,7,8,9,10,11,12,13,14,15>>
CTR == <<240,241,242,243,244,245,246,247,248,249,250,251,252,253,254,255>>
PT  == <<107,193,190,226,46,64,159,150,233,61,126,17,115,147,23,42,174,45,138,87,30,3,172,156,158,183,111,172,69,175,142,81,48,200,28,70,163,92,228,17,229,251,193,25,26,10,82,239,246,159,36,69,223,79,155,23,173,43,65,123,230,108,55,16>>
C_ecb == <<58,215,123,180,13,122,54,96,168,158,202,243,36,102,239,151,245,211,213,133,3,185,105,157,231,133,137,90,150,253,186,175,67,177,205,127,89,142,206,35,136,27,0,227,237,3,6,136,123,12,120,94,39,232,173,63,130,35,32,113,4,114,93,212>>
C_cbc == <<118,73,171,172,129,25,178,70,206,233,142,155,18,233,25,125,80,134,203,155,80,114,25,238,149,219,17,58,145,118,120,178,115,190,214,184,227,193,116,59,113,22,230,158,34,34,149,22,63,241,202,161,104,31,172,9,18,14,202,48,117,134,225,167>>
C_cfb128 == <<59,63,217,46,183,45,173,32,51,52,73,248,232,60,251,74,200,166,69,55,160,179,169,63,205,227,205,173,159,28,229,139,38,117,31,103,163,203,177,64,177,128,140,241,135,164,244,223,192,75,5,53,124,93,28,14,234,196,198,111,159,247,242,230>>
C_cfb8 == <<59,121,66,76,156,13,212,54,186,206,158,14,212,88,106,79,50,185>>
C_ofb == <<59,63,217,46,183,45,173,32,51,52,73,248,232,60,251,74,119,137,80,141,22,145,143,3,245,60,82,218,197,78,216,37,151,64,5,30,156,95,236,246,67,68,247,168,34,96,237,204,48,76,101,40,246,89,199,120,102,165,16,217,193,214,174,94>>
C_ctr == <<135,77,97,145,182,32,227,38,27,239,104,100,153,13,182,206,152,6,246,107,121,112,253,255,134,23,24,123,185,255,253,255,90,228,223,62,219,213,211,94,91,79,9,2,13,176,62,171,30,3,29,218,47,190,3,209,121,33,112,160,243,0,156,238>>
RK == RoundKeys(KEY)
Cfg(mode, iv, seg) == [mode |-> mode, k |-> RK, iv |-> iv, seg |-> seg]
ASSUME M!Whole(Cfg("ecb", <<>>, 0), "enc", PT) = C_ecb /\ M!Whole(Cfg("ecb", <<>>, 0), "dec", C_ecb) = PT
ASSUME M!Whole(Cfg("cbc", IV, 0), "enc", PT) = C_cbc /\ M!Whole(Cfg("cbc", IV, 0), "dec", C_cbc) = PT
ASSUME M!Whole(Cfg("cbc", IV, 0), "enc", PT) = CbcEnc(KEY, IV, PT)          \* the CBC of AES.tla (used as MAC elsewhere)
ASSUME M!Whole(Cfg("cfb", IV, 16), "enc", PT) = C_cfb128 /\ M!Whole(Cfg("cfb", IV, 16), "dec", C_cfb128) = PT
ASSUME M!Whole(Cfg("cfb", IV, 1), "enc", SubSeq(PT, 1, 18)) = C_cfb8 /\ M!Whole(Cfg("cfb", IV, 1), "dec", C_cfb8) = SubSeq(PT, 1, 18)
ASSUME M!Whole(Cfg("ofb", IV, 0), "enc", PT) = C_ofb /\ M!Whole(Cfg("ofb", IV, 0), "dec", C_ofb) = PT
ASSUME M!Whole(Cfg("ctr", CTR, 0), "enc", PT) = C_ctr /\ M!Whole(Cfg("ctr", CTR, 0), "dec", C_ctr) = PT
\* mode objects: the same answers when the message is passed in pieces
RECURSIVE Drive(_, _, _, _, _, _)
Drive(st, dir, X, sizes, i, acc) ==
    IF i > Len(sizes) THEN acc
    ELSE LET r == M!Call(st, dir, SubSeq(X, 1, sizes[i])) IN Drive(r.st, dir, SubSeq(X, sizes[i] + 1, Len(X)), sizes, i + 1, acc \o r.out)
Obj(mode, iv, seg) == M!NewMode(Cfg(mode, iv, seg))
ASSUME Drive(Obj("ecb", <<>>, 0), "enc", PT, <<16, 16, 16, 16>>, 1, <<>>) = C_ecb
ASSUME Drive(Obj("cbc", IV, 0), "enc", PT, <<16, 16, 16, 16>>, 1, <<>>) = C_cbc
ASSUME Drive(Obj("cbc", IV, 0), "dec", C_cbc, <<16, 16, 16, 16>>, 1, <<>>) = PT
ASSUME Drive(Obj("cfb", IV, 16), "enc", PT, <<16, 0, 32, 16>>, 1, <<>>) = C_cfb128
ASSUME Drive(Obj("cfb", IV, 16), "dec", C_cfb128, <<32, 32>>, 1, <<>>) = PT
ASSUME Drive(Obj("cfb", IV, 1), "enc", SubSeq(PT, 1, 18), <<1, 16, 0, 1>>, 1, <<>>) = C_cfb8
ASSUME Drive(Obj("cfb", IV, 1), "dec", C_cfb8, <<7, 11>>, 1, <<>>) = SubSeq(PT, 1, 18)
ASSUME Drive(Obj("ofb", IV, 0), "enc", PT, <<1, 15, 17, 0, 31>>, 1, <<>>) = C_ofb
ASSUME Drive(Obj("ofb", IV, 0), "dec", C_ofb, <<33, 31>>, 1, <<>>) = PT
ASSUME Drive(Obj("ctr", CTR, 0), "enc", PT, <<5, 0, 27, 32>>, 1, <<>>) = C_ctr
ASSUME Drive(Obj("ctr", CTR, 0), "dec", C_ctr, <<64>>, 1, <<>>) = PT
\* counter: carry through all cells and roll-over to zero at 2^128 - 1
Ones == <<255,255,255,255, 255,255,255,255, 255,255,255,255, 255,255,255,255>>
ASSUME M!Inc(Ones) = Zero16 /\ M!CtrPlus(Ones, 1) = Zero16 /\ M!CtrPlus(Ones, 3) = <<0,0,0,0, 0,0,0,0, 0,0,0,0, 0,0,0,2>>
ASSUME M!Inc(<<0,0,0,0, 0,0,0,0, 0,0,0,0, 0,0,255,255>>) = <<0,0,0,0, 0,0,0,0, 0,0,0,0, 0,1,0,0>>
ASSUME M!Inc(<<0,255,255,255, 255,255,255,255, 255,255,255,255, 255,255,255,255>>) = <<1,0,0,0, 0,0,0,0, 0,0,0,0, 0,0,0,0>>
VARIABLE x
Init == x = 0
Next == x' = x
=============================================================================
