--------------------------- MODULE Trace_Bf3Toy ---------------------------
(* The BF3 layout instantiated on a TOY cipher that the harness registers through the library's public plug-in interface
   (register_AES128): the MAC has only 8 bits of entropy - sixteen copies of one byte - and the "cipher" is a position-dependent
   XOR stream.  With a real MAC a comparison that looks at less than the whole MAC (a truncated compare, an XOR-fold or a sum of
   its words) fails only with negligible probability; with this MAC it fails all the time, while a complete comparison behaves
   exactly as the specification instantiated on the same toy cipher says (including the 1/256 genuine collisions of the toy MAC,
   which specification and code then both accept).  Events (ndjson): writes and reads of the real library with the toy back end
   registered; same verdict clauses as Trace_Bec2's BF3 part.

       ToyMac(key, i, d)  = 16 x ((sum key + 29 i + |d| + sum_j ((j mod 251) + 1) d[j]) mod 256)
       ToyEnc(key, d)[j]  = d[j] xor ((key[((j-1) mod 16) + 1] + 17 ((j-1) div 16) + 1) mod 256)      (on the zero-padded data) *)
EXTENDS Text, Bitwise, Json, IOUtils, TLC
LOCAL INSTANCE SequencesExt
Trace == ndJsonDeserialize(IOEnv.TRACE_FILE)
VARIABLE i

SumSeq(s) == FoldLeft(LAMBDA a, b : a + b, 0, s)
ToyPadLen(n) == (16 - (n % 16)) % 16
ToyPad(d) == d \o SubSeq([j \in 1..16 |-> 0], 1, ToyPadLen(Len(d)))
ToyByte(key, ix, d) ==
    LET w == SubSeq([j \in 1..Len(d) |-> (((j - 1) % 251) + 1) * d[j]], 1, Len(d))
    IN  (SumSeq(key) + 29 * ix + Len(d) + SumSeq(w)) % 256
ToyMac(key, ix, d) == LET b == ToyByte(key, ix, d) IN SubSeq([j \in 1..16 |-> b], 1, 16)
ToyStream(key, j) == (key[((j - 1) % 16) + 1] + 17 * ((j - 1) \div 16) + 1) % 256
ToyXor(key, d) == SubSeq([j \in 1..Len(d) |-> d[j] ^^ ToyStream(key, j)], 1, Len(d))
ToyEnc(key, d) == ToyXor(key, d)             \* (the layout hands over zero-padded, block-aligned data)
ToyDec(key, d) == ToyXor(key, d)
TCell(n) == n
TVal(c)  == c
L == INSTANCE Bf3Layout WITH W_ADR <- 4, W_LEN <- 4, W_MAC <- 16, BLK <- 16, Base <- 256, Huge <- 1073741824,
        Cell <- TCell, Val <- TVal, Mac <- ToyMac, Enc <- ToyEnc, Dec <- ToyDec, ENC_TAG <- 194, ENC_SESSION <- <<2>>,
        KeyA <- [j \in 1..16 |-> 0], KeyB <- [j \in 1..16 |-> 1], GarbageCell <- 165,
        SHORT_READ_OK <- FALSE, ENC_NEVER_DECRYPTS <- FALSE
Bf3Sig == <<66, 70, 51, 0, 0>>

SameComp(a, b) == /\ a.desc = b.desc /\ a.alen = b.alen /\ a.enc = b.enc
                  /\ IF a.enc THEN Len(a.blob) >= a.alen /\ Len(b.blob) >= a.alen /\ SubSeq(a.blob, 1, a.alen) = SubSeq(b.blob, 1, a.alen)
                     ELSE a.blob = b.blob
SameComps(x, y) == Len(x) = Len(y) /\ \A j \in 1..Len(x) : SameComp(x[j], y[j])
WriteVerdict(ev) ==
    LET bin == Bf3Sig \o L!Serialize(ev.comps, 5, ev.key) IN
    IF ~TextMatches(ev.text, ev.comments, bin) THEN "text-envelope" ELSE "ok"
ReadVerdict(ev) ==
    LET rt == ReadText(ev.text) IN
    IF ~rt.ok THEN (IF ev.kind = "ok" THEN "accepted-bad-text" ELSE "ok")
    ELSE IF Len(rt.bin) < 5 \/ SubSeq(rt.bin, 1, 5) # Bf3Sig THEN (IF ev.kind = "ok" THEN "accepted-bad-signature" ELSE "ok")
    ELSE LET p == L!Parse(rt.bin, 5, ev.key, ev.check) IN
         IF ~p.ok THEN (IF ev.kind = "ok" THEN "accepted-malformed:" \o p.err ELSE "ok")
         ELSE IF ev.kind # "ok" THEN "rejected-wellformed"
         ELSE IF ev.comps # p.comps THEN "content-differs-from-fields"
         ELSE "ok"
Verdict(ev) == IF ev.op = "bf3.write" THEN WriteVerdict(ev)
               ELSE IF ev.op = "bf3.read" THEN ReadVerdict(ev)
               ELSE IF ev.op = "toy.mac" THEN (IF ToyMac(ev.key, ev.ix, ev.data) = ev.out THEN "ok" ELSE "toy-mac-differs")
               ELSE IF ev.op = "toy.enc" THEN (IF ToyEnc(ev.key, ToyPad(ev.data)) = ev.out /\ ToyDec(ev.key, ev.out) = ToyPad(ev.data) THEN "ok" ELSE "toy-enc-differs")
               ELSE "unknown-op"
Init == i = 1
Next == /\ i <= Len(Trace)
        /\ LET v == Verdict(Trace[i]) IN IF v = "ok" THEN TRUE ELSE PrintT(<<"REJ", Trace[i].tid, v, "">>)
        /\ i' = i + 1
        /\ IF i = Len(Trace) THEN PrintT(<<"DONE", i>>) ELSE TRUE
=============================================================================
