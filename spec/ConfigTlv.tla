------------------------------ MODULE ConfigTlv ------------------------------
(* C10.  Configuration dictionary -> TLV blocks -> configuration component blob.

   PART 1 is DECLARATIVE and written from the property statement only: what the operations of a
   dictionary are, what a block list / a component blob must look like, how a block is decoded.
   It does not know how blocks are formed.  PART 2 (MergeAlgo) is the preface/data/postface
   merge loop of bf3file.conf_dict_to_tlv; MC_ConfigTlv shows that it refines PART 1.

   One text, two instances (as Bf3Layout):
     concrete  cells are bytes 0..255, a content is its byte sequence          (Trace_ConfigTlv)
     abstract  cells are records; a content of n > 0 bytes is ONE token cell of size n (MC_ConfigTlv)

   entry / operation: [kind |-> "set" | "delv" | "delk", key |-> 0..65535, vid |-> 0..254 (delk: 255),
                       content |-> content ("set") or NoContent]
   dictionary: a SET of entries with pairwise different (key, vid), no "delk" sharing its key. *)
EXTENDS Naturals, Sequences, FiniteSets
CONSTANTS Cell(_), Val(_),        \* integer -> cell, cell -> integer (not a number: 9999)
          CEnc(_), CLen(_),       \* content -> cells, content -> byte length
          Size(_),                \* cells -> number of bytes they stand for
          Take(_, _, _),          \* (cells, pos, n) -> [ok, got, next]: the n bytes starting at cell pos
          TakeContent(_, _, _),   \* the same, got = the content of n bytes
          NoContent,
          EMPTY_FIRST_BLOCK,      \* switch (PART 2 only): the merge loop as the code has it (defect #5): an oversize
                                  \*   entry in first position closes the still empty first block
          FF_PAST_255             \* switch (PART 2 only): as the code has it: a block is always closed with the FF
                                  \*   terminator, also when that makes it 256 bytes (content of exactly 250 bytes)

MaxBlock == 117                   \* 127 - 10 (encryption may add up to 10 bytes)
Range(s) == {s[i] : i \in DOMAIN s}

\* ------------------------------------------------------------------ PART 1: declarative
IsDel(e) == e.kind # "set"
Rank(e)  == e.key * 256 + (IF e.kind = "delk" THEN 0 ELSE e.vid)
WellFormedDict(d) ==
    /\ \A e \in d : /\ e.kind \in {"set", "delv", "delk"} /\ e.key \in 0..65535
                    /\ IF e.kind = "delk" THEN e.vid = 255 ELSE e.vid \in 0..254
                    /\ IF e.kind = "set" THEN CLen(e.content) \in 0..254 ELSE e.content = NoContent
    /\ \A e, f \in d : (e # f /\ e.key = f.key) => (e.kind # "delk" /\ f.kind # "delk" /\ e.vid # f.vid)
\* all deletions in sorted order, then all assignments in sorted order, each once
Before(a, b) == (IsDel(a) /\ ~IsDel(b)) \/ (IsDel(a) = IsDel(b) /\ Rank(a) < Rank(b))
IsOps(s, d) == /\ Len(s) = Cardinality(d) /\ Range(s) = d
               /\ \A i \in 1..(Len(s) - 1) : Before(s[i], s[i + 1])
\* the same, constructively (input of the merge algorithm; MC checks IsOps(Ops(d), d))
RECURSIVE SortBy(_)
SortBy(S) == IF S = {} THEN <<>>
             ELSE LET m == CHOOSE x \in S : \A y \in S : Rank(x) <= Rank(y) IN <<m>> \o SortBy(S \ {m})
Ops(d) == SortBy({e \in d : IsDel(e)}) \o SortBy({e \in d : ~IsDel(e)})

\* size of an entry as a self-contained block part: 02 kk kk | 01 kk kk vid FF FF | 01 kk kk vid len content FF
EntrySize(e) == IF e.kind = "delk" THEN 3 ELSE IF e.kind = "delv" THEN 6 ELSE 6 + CLen(e.content)
AllFit(d) == \A e \in d : EntrySize(e) <= MaxBlock
\* a block length must be writable in the one length byte of the component (01 kk kk vid len content <= 255)
Representable(d) == \A e \in d : EntrySize(e) - 1 <= 255

\* Decoding of one block.  op 02 key -> delete key; op 01 key, then items `vid len content` (assign) or
\* `vid FF` (delete value) until an FF in vid position or the end of the block.
Op(kind, key, vid, c) == [kind |-> kind, key |-> key, vid |-> vid, content |-> c]
Bad == [ok |-> FALSE, ops |-> <<>>]
RECURSIVE DecItems(_, _, _, _), DecOps(_, _, _)
DecOps(b, p, acc) ==
    IF p > Len(b) THEN [ok |-> TRUE, ops |-> acc]
    ELSE IF p + 2 > Len(b) \/ Val(b[p + 1]) > 255 \/ Val(b[p + 2]) > 255 THEN Bad
    ELSE LET key == Val(b[p + 1]) * 256 + Val(b[p + 2]) IN
         IF Val(b[p]) = 2 THEN DecOps(b, p + 3, Append(acc, Op("delk", key, 255, NoContent)))
         ELSE IF Val(b[p]) = 1 THEN DecItems(b, p + 3, key, acc)
         ELSE Bad
DecItems(b, p, key, acc) ==
    IF p > Len(b) THEN [ok |-> TRUE, ops |-> acc]                    \* block end closes the item list
    ELSE IF Val(b[p]) = 255 THEN DecOps(b, p + 1, acc)               \* FF terminator
    ELSE IF Val(b[p]) > 255 \/ p + 1 > Len(b) \/ Val(b[p + 1]) > 255 THEN Bad
    ELSE IF Val(b[p + 1]) = 255 THEN DecItems(b, p + 2, key, Append(acc, Op("delv", key, Val(b[p]), NoContent)))
    ELSE LET t == TakeContent(b, p + 2, Val(b[p + 1])) IN
         IF ~t.ok THEN Bad ELSE DecItems(b, t.next, key, Append(acc, Op("set", key, Val(b[p]), t.got)))
DecodeBlock(b) == DecOps(b, 1, <<>>)
RECURSIVE DecodeFrom(_, _, _)
DecodeFrom(bs, i, acc) == IF i > Len(bs) THEN [ok |-> TRUE, ops |-> acc]
                          ELSE LET r == DecodeBlock(bs[i]) IN IF ~r.ok THEN Bad ELSE DecodeFrom(bs, i + 1, acc \o r.ops)
Decode(bs) == DecodeFrom(bs, 1, <<>>)

\* verdict on the dictionary's own blocks: "ok" or the name of the first failing clause
BlocksVerdict(bs, d) ==
    IF \E i \in DOMAIN bs : Size(bs[i]) = 0 THEN "empty-block"
    ELSE IF AllFit(d) /\ \E i \in DOMAIN bs : Size(bs[i]) > MaxBlock THEN "block-over-117"
    ELSE LET r == Decode(bs) IN
         IF ~r.ok THEN "block-undecodable"
         ELSE IF ~IsOps(r.ops, d) THEN "decode-differs-from-ops"
         ELSE "ok"

\* framing of the component blob: (len || block)* 00, nothing after the terminator
RECURSIVE Split(_, _, _)
Split(b, p, acc) ==
    IF p > Len(b) THEN [ok |-> FALSE, err |-> "no-terminator", blocks |-> acc]
    ELSE IF Val(b[p]) = 0 THEN
         (IF p = Len(b) THEN [ok |-> TRUE, err |-> "", blocks |-> acc]
          ELSE [ok |-> FALSE, err |-> "data-after-terminator", blocks |-> acc])     \* an empty block reads as the end
    ELSE IF Val(b[p]) > 255 THEN [ok |-> FALSE, err |-> "length-not-a-byte", blocks |-> acc]
    ELSE LET t == Take(b, p + 1, Val(b[p])) IN
         IF ~t.ok THEN [ok |-> FALSE, err |-> "block-cut-short", blocks |-> acc]
         ELSE Split(b, t.next, Append(acc, t.got))
BlobVerdict(b, d, extra) ==
    LET s == Split(b, 1, <<>>) IN
    IF ~s.ok THEN s.err
    ELSE IF Len(s.blocks) < Len(extra) THEN "extra-blocks-missing"
    ELSE LET own == Len(s.blocks) - Len(extra) IN
         IF SubSeq(s.blocks, own + 1, Len(s.blocks)) # extra THEN "extra-blocks-changed"
         ELSE BlocksVerdict(SubSeq(s.blocks, 1, own), d)
\* tags of the component: TYPE(C3)=03 configuration, ENC(C2)=02 session key, FMT(C1)=03 TLV, REBOOT(C5)=01
ConfigTags == {<<195, <<3>>>>, <<194, <<2>>>>, <<193, <<3>>>>, <<197, <<1>>>>}

\* ------------------------------------------------------------------ PART 2: MergeAlgo (conf_dict_to_tlv)
Key2(k) == <<Cell(k \div 256), Cell(k % 256)>>
Part(e) == IF e.kind = "delk" THEN [pre |-> <<Cell(2)>> \o Key2(e.key), data |-> <<>>, post |-> <<>>]
           ELSE IF e.kind = "delv" THEN [pre |-> <<Cell(1)>> \o Key2(e.key), data |-> <<Cell(e.vid), Cell(255)>>, post |-> <<Cell(255)>>]
           ELSE [pre |-> <<Cell(1)>> \o Key2(e.key), data |-> <<Cell(e.vid), Cell(CLen(e.content))>> \o CEnc(e.content),
                 post |-> <<Cell(255)>>]
\* st = [blocks (the last one is being filled), pre, post (of the last part)]
\* closing a block: the terminator is redundant at a block end; corrected: left out where it would not fit the length byte
Close(cur, post) == IF ~FF_PAST_255 /\ Size(cur) + Size(post) > 255 THEN cur ELSE cur \o post
MergeStep(st, pt) ==
    LET n   == Len(st.blocks)
        cur == st.blocks[n]
    IN  IF Size(cur) + Size(st.post) + Size(pt.pre) + Size(pt.data) + Size(pt.post) > MaxBlock THEN
            IF ~EMPTY_FIRST_BLOCK /\ Len(cur) = 0          \* corrected: nothing to close, start in place
            THEN [blocks |-> [st.blocks EXCEPT ![n] = pt.pre \o pt.data], pre |-> pt.pre, post |-> pt.post]
            ELSE [blocks |-> Append([st.blocks EXCEPT ![n] = Close(cur, st.post)], pt.pre \o pt.data), pre |-> pt.pre, post |-> pt.post]
        ELSE IF pt.pre = st.pre /\ pt.post = st.post THEN [st EXCEPT !.blocks[n] = cur \o pt.data]
        ELSE [blocks |-> [st.blocks EXCEPT ![n] = cur \o st.post \o pt.pre \o pt.data], pre |-> pt.pre, post |-> pt.post]
RECURSIVE MergeFrom(_, _, _)
MergeFrom(ops, i, st) == IF i > Len(ops) THEN st ELSE MergeFrom(ops, i + 1, MergeStep(st, Part(ops[i])))
Merge(ops) == LET st == MergeFrom(ops, 1, [blocks |-> << <<>> >>, pre |-> <<>>, post |-> <<>>])
                  n  == Len(st.blocks)
              IN  IF Len(st.blocks[n]) = 0 THEN SubSeq(st.blocks, 1, n - 1) ELSE st.blocks
\* set_config framing
RECURSIVE FrameFrom(_, _)
FrameFrom(bs, i) == IF i > Len(bs) THEN <<Cell(0)>> ELSE <<Cell(Size(bs[i]))>> \o bs[i] \o FrameFrom(bs, i + 1)
Frame(bs) == FrameFrom(bs, 1)
Framable(bs) == \A i \in DOMAIN bs : Size(bs[i]) <= 255      \* else len.to_bytes(1) fails
=============================================================================
