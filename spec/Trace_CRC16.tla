--------------------------- MODULE Trace_CRC16 ---------------------------
(* C->S: events recorded from the real crc8404B are judged by the bit-serial
   definition.  ev.op = "crc": data, start, out.   ev.op = "tab": x, out (table export check) *)
EXTENDS CRC16, Json, IOUtils, TLC
Trace == ndJsonDeserialize(IOEnv.TRACE_FILE)
VARIABLE i
Verdict(ev) ==
    IF ev.op = "crc" THEN
        IF ev.out = Crc(ev.data, ev.start) THEN "ok" ELSE "crc-value"
    ELSE IF ev.op = "step" THEN
        IF ev.out = StepBit(ev.start, ev.b) THEN "ok" ELSE "step-value"
    ELSE "unknown-op"
Init == i = 1
Next == /\ i <= Len(Trace)
        /\ LET v == Verdict(Trace[i]) IN
             IF v = "ok" THEN TRUE ELSE PrintT(<<"REJ", Trace[i].tid, v, "">>)
        /\ i' = i + 1
        /\ IF i = Len(Trace) THEN PrintT(<<"DONE", i>>) ELSE TRUE
=============================================================================
