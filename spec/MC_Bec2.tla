------------------------------- MODULE MC_Bec2 -------------------------------
(* Abstract BEC2 key management (C02 C07 C09), exhaustive over bounded scenarios.
   Symbolic cryptography: Wrap(k, frame) is a cipher token that only k opens; DH is a symmetric term
   {private id, public id}; nonces are never reused.  The container frame, its CRC classes (CRC bytes
   that are 00) and session keys ending in 00 are modelled concretely on small cells because the
   defect class "decrypt strips trailing zeros" (switch ADAPTER_STRIPS) lives there.
   Scenario steps: NewFile, AddBlock, Write (draws ephemerals), Read(decryptors), Splice, Rewrite. *)
EXTENDS Naturals, Sequences, FiniteSets, TLC
CONSTANTS ADAPTER_STRIPS, ECC_FALLBACK_SEL0, POINT_CHECK_OFF, MaxFiles, MaxWrites, MaxBlocks
VARIABLES drawn,      \* number of nonces handed out so far (nonce ids 1..drawn)
          files,      \* seq of [key, explicit, blocks]         blocks: seq of block specs
          hdrs,       \* seq of [fid, packed]                    packed: seq of [tag, raw]
          reads,      \* seq of [hid, decs, res, spliced]
          freshlog    \* seq of nonce ids in the order drawn (history variable for Fresh)
vars == <<drawn, files, hdrs, reads, freshlog>>

\* ---- symbolic crypto
RECURSIVE StripZ(_, _)
StripZ(d, n) == IF n > 0 /\ d[n] = 0 THEN StripZ(d, n - 1) ELSE SubSeq(d, 1, n)
DecOut(d) == IF ADAPTER_STRIPS THEN StripZ(d, Len(d)) ELSE d
Enc(k, d) == [k |-> k, d |-> d]                       \* opaque to everyone but the holder of k
Dec(k, c) == IF c.k = k THEN DecOut(c.d) ELSE <<99, 99, 99>>   \* garbage under another key
RECURSIVE WSum(_, _)
WSum(p, j) == IF j = 0 THEN 0 ELSE (j * p[j] + WSum(p, j - 1)) % 4
Crc(p) == <<WSum(p, Len(p)) \div 2, WSum(p, Len(p)) % 2>>           \* every CRC byte class (00 / non-00) occurs
Frame(p) == <<66, Len(p) + 2, 0>> \o p \o Crc(p)                     \* marker, length, one padding cell, payload, CRC
\* the library's parser: marker, length cell, payload located from the END of the ciphertext length
Unwrap(k, c) ==
    LET d == Dec(k, c)  total == Len(c.d) IN
    IF Len(d) < 2 \/ d[1] # 66 THEN [ok |-> FALSE, p |-> <<>>]
    ELSE LET n == d[2] IN
         IF n < 2 \/ n > total \/ total > Len(d) THEN [ok |-> FALSE, p |-> <<>>]        \* strict reads: short data is an error
         ELSE LET p == SubSeq(d, total - n + 1, total - 2) IN
              IF Crc(p) # SubSeq(d, total - 1, total) THEN [ok |-> FALSE, p |-> <<>>] ELSE [ok |-> TRUE, p |-> p]
Kdf(s) == <<"kdf", s>>
DH(priv, pub) == {priv, pub}                                        \* key ids: a key pair's public and private id coincide
PubValid(pub) == pub # <<"invalid", 0>>

\* ---- keys and blocks
KeyClasses == {<<7, 7>>, <<7, 0>>}                                  \* generic; ending in 00
NonceKey(n) == <<10 + n, 10 + n>>
Sels == {0, 1}
Published(sel) == <<"pub", sel>>
CK1 == <<"ck", 1>>
Codes == {<<"code", 1>>, <<"code", 2>>}
None == <<"none", 0>>
Default == <<"default", 0>>
RK1 == <<"rk", 1>>
Versions == {0, 1}
\* block spec: [kind, sel, code, ver, rcpt]  (rcpt = "default" or an explicit key id)
BlockSpecs == {[kind |-> "cust", sel |-> 0, code |-> None, ver |-> 0, rcpt |-> None]}
              \cup {[kind |-> "ecc", sel |-> s, code |-> None, ver |-> 0, rcpt |-> rc] : s \in Sels, rc \in {Default, RK1}}
              \cup {[kind |-> "upd", sel |-> 0, code |-> c, ver |-> v, rcpt |-> None] : c \in Codes, v \in Versions}
TagOf(kind) == IF kind = "cust" THEN 1 ELSE IF kind = "upd" THEN 2 ELSE 3
RecipientOf(b) == IF b.rcpt # Default THEN b.rcpt ELSE Published(IF ECC_FALLBACK_SEL0 THEN 0 ELSE b.sel)
Pack(b, key, eph) ==
    IF b.kind = "cust" THEN [tag |-> 1, raw |-> Enc(CK1, Frame(<<0>> \o key))]          \* placeholder cell + session key
    ELSE IF b.kind = "upd" THEN [tag |-> 2, raw |-> Enc(<<"sha", b.code>>, Frame(key \o <<b.ver>>))]
    ELSE [tag |-> 3, raw |-> [sel |-> b.sel, eph |-> eph, c |-> Enc(Kdf(DH(eph, RecipientOf(b))), key)]]

\* ---- decryptors: [kind, key]  cust: AES key id; upd: code; ecc: <<sel, private id>>
AllDecs == {[kind |-> "cust", key |-> CK1, sel |-> 0], [kind |-> "cust", key |-> <<"ck", 2>>, sel |-> 0]}
           \cup {[kind |-> "upd", key |-> c, sel |-> 0] : c \in Codes}
           \cup {[kind |-> "ecc", key |-> k, sel |-> s] : s \in Sels, k \in {RK1, Published(0), Published(1)}}
Matches(d, blk) == \/ d.kind = "cust" /\ blk.tag = 1
                   \/ d.kind = "upd" /\ blk.tag = 2
                   \/ d.kind = "ecc" /\ blk.tag = 3 /\ blk.raw.sel = d.sel
\* decryptor sets are SEQUENCES (the library takes the first matching one); at most one per kind here
UnpackBlock(blk, decs) ==
    LET js == {j \in 1..Len(decs) : Matches(decs[j], blk)} IN
    IF js = {} THEN [kind |-> "unknown", key |-> <<>>, out |-> blk]
    ELSE LET d == decs[CHOOSE j \in js : \A q \in js : j <= q] IN
         IF blk.tag = 1 THEN LET u == Unwrap(d.key, blk.raw) IN
              IF ~u.ok THEN [kind |-> "error", key |-> <<>>, out |-> blk]
              ELSE [kind |-> "ok", key |-> SubSeq(u.p, IF Len(u.p) > 2 THEN Len(u.p) - 1 ELSE 1, Len(u.p)), out |-> [tag |-> 1, raw |-> <<"typed", None, 0>>]]
         ELSE IF blk.tag = 2 THEN LET u == Unwrap(<<"sha", d.key>>, blk.raw) IN
              IF ~u.ok \/ Len(u.p) < 3 THEN [kind |-> "error", key |-> <<>>, out |-> blk]
              ELSE [kind |-> "ok", key |-> SubSeq(u.p, 1, 2), out |-> [tag |-> 2, raw |-> <<"typed", d.key, u.p[3]>>]]
         ELSE IF ~POINT_CHECK_OFF /\ ~PubValid(blk.raw.eph) THEN [kind |-> "error", key |-> <<>>, out |-> blk]
              ELSE [kind |-> "ok", key |-> Dec(Kdf(DH(d.key, blk.raw.eph)), blk.raw.c), out |-> [tag |-> 3, raw |-> <<"typed", None, blk.raw.sel>>]]
RECURSIVE UnpackAll(_, _, _, _, _)
UnpackAll(packed, decs, j, key, acc) ==
    IF j > Len(packed) THEN [ok |-> key # <<>>, key |-> key, blocks |-> acc]
    ELSE LET r == UnpackBlock(packed[j], decs) IN
         IF r.kind = "error" THEN [ok |-> FALSE, key |-> <<>>, blocks |-> <<>>]
         ELSE IF r.kind = "unknown" THEN UnpackAll(packed, decs, j + 1, key, Append(acc, r.out))
         ELSE IF key # <<>> /\ r.key # key THEN [ok |-> FALSE, key |-> <<>>, blocks |-> <<>>]
         ELSE UnpackAll(packed, decs, j + 1, r.key, Append(acc, r.out))
ReadHdr(packed, decs) == UnpackAll(packed, decs, 1, <<>>, <<>>)

\* ---- scenario steps
Init == drawn = 0 /\ files = <<>> /\ hdrs = <<>> /\ reads = <<>> /\ freshlog = <<>>
NewFileExplicit == /\ Len(files) < MaxFiles /\ hdrs = <<>>
                   /\ \E k \in KeyClasses : files' = Append(files, [key |-> k, explicit |-> TRUE, blocks |-> <<>>])
                   /\ UNCHANGED <<drawn, hdrs, reads, freshlog>>
NewFileRandom == /\ Len(files) < MaxFiles /\ hdrs = <<>>
                 /\ drawn' = drawn + 1 /\ freshlog' = Append(freshlog, drawn + 1)
                 /\ files' = Append(files, [key |-> NonceKey(drawn + 1), explicit |-> FALSE, blocks |-> <<>>])
                 /\ UNCHANGED <<hdrs, reads>>
AddBlock == /\ hdrs = <<>> /\ Len(files) > 0 /\ Len(files[Len(files)].blocks) < MaxBlocks
            /\ LET f == Len(files) IN \E b \in BlockSpecs :
                 /\ \A j \in 1..Len(files[f].blocks) : files[f].blocks[j].kind # b.kind       \* auth_blocks is a dict by tag
                 /\ files' = [files EXCEPT ![f].blocks = Append(@, b)]
            /\ UNCHANGED <<drawn, hdrs, reads, freshlog>>
NEcc(bl) == Cardinality({j \in 1..Len(bl) : bl[j].kind = "ecc"})
Write == /\ Len(hdrs) < MaxWrites /\ reads = <<>>
         /\ \E f \in 1..Len(files) :
              /\ Len(files[f].blocks) > 0
              /\ LET bl == files[f].blocks
                     ephOf(j) == <<"eph", drawn + Cardinality({q \in 1..j : bl[q].kind = "ecc"})>>
                 IN  /\ hdrs' = Append(hdrs, [fid |-> f, packed |-> SubSeq([j \in 1..Len(bl) |-> Pack(bl[j], files[f].key, ephOf(j))], 1, Len(bl))])
                     /\ drawn' = drawn + NEcc(bl)
                     /\ freshlog' = freshlog \o SubSeq([q \in 1..NEcc(bl) |-> drawn + q], 1, NEcc(bl))
         /\ UNCHANGED <<files, reads>>
DecSeqs == {<<>>} \cup {<<d>> : d \in AllDecs} \cup {<<d1, d2>> : d1 \in AllDecs, d2 \in AllDecs}
Read == /\ Len(reads) < 1 /\ Len(hdrs) > 0
        /\ \E h \in 1..Len(hdrs) : \E ds \in DecSeqs :
             reads' = Append(reads, [hid |-> h, decs |-> ds, res |-> ReadHdr(hdrs[h].packed, ds), spliced |-> FALSE, packed |-> hdrs[h].packed])
        /\ UNCHANGED <<drawn, files, hdrs, freshlog>>
\* a header spliced from blocks of two written headers
Splice == /\ Len(reads) < 1 /\ Len(hdrs) = 2
          /\ \E a \in 1..Len(hdrs[1].packed) : \E b \in 1..Len(hdrs[2].packed) : \E ds \in DecSeqs :
               LET sp == <<hdrs[1].packed[a], hdrs[2].packed[b]>> IN
               reads' = Append(reads, [hid |-> 0, decs |-> ds, res |-> ReadHdr(sp, ds), spliced |-> TRUE, packed |-> sp])
          /\ UNCHANGED <<drawn, files, hdrs, freshlog>>
\* an ECC block whose ephemeral point is invalid
BadPoint == /\ Len(reads) < 1 /\ Len(hdrs) > 0
            /\ \E h \in 1..Len(hdrs) : \E j \in 1..Len(hdrs[h].packed) : \E ds \in DecSeqs :
                 /\ hdrs[h].packed[j].tag = 3
                 /\ LET bad == [hdrs[h].packed EXCEPT ![j].raw.eph = <<"invalid", 0>>] IN
                    reads' = Append(reads, [hid |-> 0 - h, decs |-> ds, res |-> ReadHdr(bad, ds), spliced |-> FALSE, packed |-> bad])
            /\ UNCHANGED <<drawn, files, hdrs, freshlog>>
Next == NewFileExplicit \/ NewFileRandom \/ AddBlock \/ Write \/ Read \/ Splice \/ BadPoint
Spec == Init /\ [][Next]_vars

\* ---- properties
RightKey(d, f, j) ==      \* decryptor d holds the right secret for block j of file f
    LET b == files[f].blocks[j] IN
    \/ d.kind = "cust" /\ b.kind = "cust" /\ d.key = CK1
    \/ d.kind = "upd" /\ b.kind = "upd" /\ d.key = b.code
    \/ d.kind = "ecc" /\ b.kind = "ecc" /\ d.sel = b.sel /\ d.key = (IF b.rcpt = Default THEN Published(b.sel) ELSE b.rcpt)
FirstMatch(ds, blk) == LET js == {j \in 1..Len(ds) : Matches(ds[j], blk)} IN IF js = {} THEN 0 ELSE CHOOSE j \in js : \A q \in js : j <= q
\* C02: supplied decryptors all hold the right secrets and at least one opens a block => file key and blocks recovered
ReadRecovers == \A r \in 1..Len(reads) : (reads[r].hid > 0) =>
    LET rd == reads[r]  h == hdrs[rd.hid]  f == h.fid  bl == files[f].blocks
        opened == {j \in 1..Len(bl) : FirstMatch(rd.decs, h.packed[j]) # 0}
    IN  (opened # {} /\ \A j \in opened : RightKey(rd.decs[FirstMatch(rd.decs, h.packed[j])], f, j)) =>
          /\ rd.res.ok /\ rd.res.key = files[f].key
          /\ Len(rd.res.blocks) = Len(bl)
          /\ \A j \in 1..Len(bl) :
               IF j \in opened THEN rd.res.blocks[j].tag = TagOf(bl[j].kind)
                    /\ (bl[j].kind = "upd" => rd.res.blocks[j].raw = <<"typed", bl[j].code, bl[j].ver>>)
                    /\ (bl[j].kind = "ecc" => rd.res.blocks[j].raw = <<"typed", None, bl[j].sel>>)
               ELSE rd.res.blocks[j] = h.packed[j]                                     \* C07: byte-for-byte pass-through
\* C07: every block of every written header wraps the file's key
SameKeyEverywhere == \A h \in 1..Len(hdrs) : LET f == hdrs[h].fid IN \A j \in 1..Len(hdrs[h].packed) :
    LET b == files[f].blocks[j]
        d == IF b.kind = "cust" THEN [kind |-> "cust", key |-> CK1, sel |-> 0]
             ELSE IF b.kind = "upd" THEN [kind |-> "upd", key |-> b.code, sel |-> 0]
             ELSE [kind |-> "ecc", key |-> (IF b.rcpt = Default THEN Published(b.sel) ELSE b.rcpt), sel |-> b.sel]
        u == UnpackBlock(hdrs[h].packed[j], <<d>>)
    IN u.kind = "ok" /\ u.key = files[f].key
\* C07: blocks that unwrap to different keys are rejected
SpliceRejected == \A r \in 1..Len(reads) : reads[r].spliced =>
    LET rd == reads[r]
        ks == {UnpackBlock(rd.packed[j], rd.decs).key : j \in {q \in 1..2 : UnpackBlock(rd.packed[q], rd.decs).kind = "ok"}}
    IN  Cardinality(ks) > 1 => ~rd.res.ok
\* C07: nonces are handed out once
Fresh == \A a, b \in 1..Len(freshlog) : a # b => freshlog[a] # freshlog[b]
FreshKeys == \A a, b \in 1..Len(files) : (a # b /\ ~files[a].explicit) => files[a].key # files[b].key
FreshEph == \A h1, h2 \in 1..Len(hdrs) : \A j1 \in 1..Len(hdrs[h1].packed) : \A j2 \in 1..Len(hdrs[h2].packed) :
    (hdrs[h1].packed[j1].tag = 3 /\ hdrs[h2].packed[j2].tag = 3 /\ <<h1, j1>> # <<h2, j2>>) => hdrs[h1].packed[j1].raw.eph # hdrs[h2].packed[j2].raw.eph
\* C09: invalid ephemeral points are refused whenever a decryptor is applied to them
InvalidPointRefused == \A r \in 1..Len(reads) : reads[r].hid < 0 =>
    LET rd == reads[r] IN (\E j \in 1..Len(rd.packed) : rd.packed[j].tag = 3 /\ rd.packed[j].raw.eph = <<"invalid", 0>> /\ FirstMatch(rd.decs, rd.packed[j]) # 0) => ~rd.res.ok
=============================================================================
