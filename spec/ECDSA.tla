------------------------------- MODULE ECDSA -------------------------------
(* ECDSA over the tiny curve of ECGroup (FIPS 186-4 / X9.62): signing with an explicit nonce, verification
   with its range checks, and the leftmost-bits truncation of digests longer than the order. *)
EXTENDS ECGroup

InvN(a) == CHOOSE i \in 1..(N - 1) : ((a % N) * i) % N = 1          \* a # 0 (mod N), N prime

\* Sign(d, z, k), k \in 1..N-1:  <<"ok", r, s>>, or <<"r0",0,0>> / <<"s0",r,0>> when the nonce must be rejected
Sign(d, z, k) ==
    LET R == Mul(k, G)
        r == IF R[1] = 1 THEN 0 ELSE R[2] % N
        s == (InvN(k) * ((z + (r * d)) % N)) % N
    IN  IF r = 0 THEN <<"r0", 0, 0>> ELSE IF s = 0 THEN <<"s0", r, 0>> ELSE <<"ok", r, s>>

\* the point whose x coordinate decides; only meaningful for s # 0 (mod N)
VerPoint(Q, z, r, s) == LET w == InvN(s) IN MulAdd(((z % N) * w) % N, G, ((r % N) * w) % N, Q)
Verify(Q, z, r, s) ==
    /\ r \in 1..(N - 1)
    /\ s \in 1..(N - 1)
    /\ LET X == VerPoint(Q, z, r, s) IN X[1] = 0 /\ (X[2] % N) = r
InRange(r, s)          == r \in 1..(N - 1) /\ s \in 1..(N - 1)
AtInfinity(Q, z, r, s) == InRange(r, s) /\ VerPoint(Q, z, r, s)[1] = 1

\* deliberately wrong variant for the self-test: u1 and u2 exchanged
BadVerify(Q, z, r, s) ==
    /\ InRange(r, s)
    /\ LET w == InvN(s)  X == MulAdd(((r % N) * w) % N, G, ((z % N) * w) % N, Q) IN X[1] = 0 /\ (X[2] % N) = r

\* --- digests
RECURSIVE BitLen(_)
BitLen(n) == IF n = 0 THEN 0 ELSE 1 + BitLen(n \div 2)
RECURSIVE Pow2(_)
Pow2(e) == IF e = 0 THEN 1 ELSE 2 * Pow2(e - 1)
RECURSIVE BytesToInt(_)
BytesToInt(bs) == IF Len(bs) = 0 THEN 0 ELSE (256 * BytesToInt(SubSeq(bs, 1, Len(bs) - 1))) + bs[Len(bs)]
QLen == BitLen(N)
\* leftmost QLen bits of the digest (digests of at most 3 bytes here: 32-bit integers)
Bits2Int(bs) == IF 8 * Len(bs) > QLen THEN BytesToInt(bs) \div Pow2((8 * Len(bs)) - QLen) ELSE BytesToInt(bs)
=============================================================================
