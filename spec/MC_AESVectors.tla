--------------------------- MODULE MC_AESVectors ---------------------------
(* FIPS-197 Appendix B / C known answers and SP 800-38A F.2.1 (CBC-AES128), evaluated by TLC. *)
EXTENDS AES, TLC
K128 == <<0,1,2,3,4,5,6,7,8,9,10,11,12,13,14,15>>
K192 == K128 \o <<16,17,18,19,20,21,22,23>>
K256 == K192 \o <<24,25,26,27,28,29,30,31>>
PT   == <<0,17,34,51,68,85,102,119,136,153,170,187,204,221,238,255>>
C128 == <<105,196,224,216,106,123,4,48,216,205,183,128,112,180,197,90>>
C192 == <<221,169,124,164,134,76,223,224,110,175,112,160,236,13,113,145>>
C256 == <<142,162,183,202,81,103,69,191,234,252,73,144,75,73,96,137>>
ASSUME EncBlock(K128, PT) = C128 /\ DecBlock(K128, C128) = PT
ASSUME EncBlock(K192, PT) = C192 /\ DecBlock(K192, C192) = PT
ASSUME EncBlock(K256, PT) = C256 /\ DecBlock(K256, C256) = PT
\* Appendix B
KB == <<43,126,21,22,40,174,210,166,171,247,21,136,9,207,79,60>>
PB == <<50,67,246,168,136,90,48,141,49,49,152,162,224,55,7,52>>
CB == <<57,37,132,29,2,220,9,251,220,17,133,151,25,106,11,50>>
ASSUME EncBlock(KB, PB) = CB
\* SP 800-38A F.2.1 CBC-AES128.Encrypt, first two blocks
IV  == <<0,1,2,3,4,5,6,7,8,9,10,11,12,13,14,15>>
P12 == <<107,193,190,226,46,64,159,150,233,61,126,17,115,147,23,42, 174,45,138,87,30,3,172,156,158,183,111,172,69,175,142,81>>
C12 == <<118,73,171,172,129,25,178,70,206,233,142,155,18,233,25,125, 80,134,203,155,80,114,25,238,149,219,17,58,145,118,120,178>>
ASSUME CbcEnc(KB, IV, P12) = C12 /\ CbcDec(KB, IV, C12) = P12
ASSUME CbcMac(KB, IV, P12) = SubSeq(C12, 17, 32)
ASSUME ZeroPad(<<1,2,3>>) = <<1,2,3,0,0,0,0,0,0,0,0,0,0,0,0,0>> /\ ZeroPad(PT) = PT
\* the fold formulation of CBC equals the recursive reference formulation (and both the standard's answers above):
\* on the vectors, on longer data of every length 0..5 blocks, with and without a trailing partial block
LongData(n) == SubSeq([i \in 1..n |-> (i * 37 + 11) % 256], 1, n)
ASSUME \A n \in {0, 16, 32, 48, 64, 80, 17, 33} :
          /\ CbcEnc(KB, IV, LongData(n)) = CbcEncRef(KB, IV, LongData(n))
          /\ CbcDec(KB, IV, LongData(n)) = CbcDecRef(KB, IV, LongData(n))
ASSUME \A n \in {1, 15, 16, 17, 47, 48, 49, 80} : CbcMac(KB, IV, LongData(n)) = CbcMacRef(KB, IV, LongData(n))
ASSUME CbcEncRef(KB, IV, P12) = C12 /\ CbcDecRef(KB, IV, C12) = P12 /\ CbcMacRef(KB, IV, P12) = SubSeq(C12, 17, 32)
VARIABLE x
Init == x = 0
Next == x' = x
=============================================================================
