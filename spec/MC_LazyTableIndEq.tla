------------------------- MODULE MC_LazyTableIndEq -------------------------
(* Binding of LazyTableInd.tla (the Apalache-typed restatement used for the inductive
   argument) to LazyTable.tla (the model that is bound to the real code by check C20).
   TLC evaluates both on the same states and requires them to agree:

     ConstEq      Ramp/Zeros are what they should be; Prefix, Full, TableFrom, Old, New, Affine, Scaled agree
     StepEq       Builder, Interrupt, RdMul, RdEq, RdScaleMul, Finished and Next are the same relations
                  (~ENABLED (A /\ ~B) both ways)
     PropEq       TypeOK, PubEmptyOrComplete, CoordsOldOrNew, AloneOK, LocIsPrefix, ReaderOK, FinalOK agree,
                  in the state and in every successor state
     ActEq        StepsAreEffects and TableNeverShrinks: the action formulas agree on every step
     InitEq       Init is the same predicate

   "all":   every state with mode, bpc (within LazyTableInd!Roles: the code that runs belongs to the mode),
            lk, shared, rdone arbitrary, loc and pub ANY list of length <= N whose entry j is j or 0,
            coords and tmp from alphabets with old, new, mixed and unread triples - reachable or not, a superset of
            the states the inductive step ranges over (as far as N = 2 can tell) - for the two faithful variants.
   "reach": the reachable states (N = 3), for the faithful variants and for every deviation switch.

   cfg (written by harness/apalache.py):
     all:    CONSTANTS N = 2 ..  INIT EqSeed NEXT EqFan      reach:  CONSTANTS N = 3 ..  INIT Init NEXT Next
     INVARIANTS StepEq PropEq ActEq InitEq
   (EqSeed/EqFan instead of one big INIT: TLC enumerates initial states on one thread, successors on all workers.) *)
EXTENDS LazyTable

Ind == INSTANCE LazyTableInd

Triples == {Old, New, <<"x", "Y", "Z">>, <<"x", "y", "Z">>, <<"?", "?", "one">>, <<"-", "-", "-">>, <<"-", "-", "Z">>, <<"-", "-", "one">>}
ConstEq == /\ Ind!LiteralsOK /\ N <= Ind!KMax
           /\ \A k \in 0..N : Ind!Prefix(k) = Prefix(k)
           /\ Ind!Full = Full /\ Ind!Old = Old /\ Ind!New = New
           /\ \A c \in Triples : Ind!TableFrom(c) = TableFrom(c) /\ Ind!Affine(c) = Affine(c) /\ Ind!Scaled(c) = Scaled(c)
           /\ Ind!Modes = Modes
ASSUME ConstEq

Lists   == {s \in UNION {[1..k -> 0..N] : k \in 0..N} : \A j \in DOMAIN s : s[j] \in {0, j}}
CoordsA == {Old, New, <<"x", "Y", "Z">>, <<"?", "?", "one">>}
TmpA    == {Old, New, <<"-", "-", "-">>, <<"x", "y", "Z">>, <<"-", "-", "one">>}
Obs0    == [op |-> "none", seen |-> 0, ok |-> TRUE]
EqSeed == /\ mode \in Modes
          /\ bpc \in Ind!BLabels
          /\ Ind!Roles
          /\ loc \in Lists /\ pub \in Lists
          /\ lk = "free" /\ shared = FALSE /\ rdone = FALSE /\ coords = Old /\ tmp = <<"-", "-", "-">> /\ obs = Obs0
EqFan == /\ lk = "free" /\ shared = FALSE /\ rdone = FALSE /\ coords = Old /\ tmp = <<"-", "-", "-">> /\ obs = Obs0
         /\ UNCHANGED <<mode, bpc, loc, pub>>
         /\ lk' \in {"free", "A"} /\ shared' \in BOOLEAN /\ rdone' \in BOOLEAN
         /\ coords' \in CoordsA /\ tmp' \in TmpA
         /\ obs' \in {Obs0, [op |-> "mul", seen |-> 1, ok |-> TRUE], [op |-> "eq", seen |-> N, ok |-> FALSE]}

Same(A, B) == ~ ENABLED (A /\ ~B) /\ ~ ENABLED (B /\ ~A)

StepEq == /\ Same(Builder, Ind!Builder)
          /\ Same(Interrupt, Ind!Interrupt)
          /\ Same(RdMul, Ind!RdMul) /\ Same(RdEq, Ind!RdEq) /\ Same(RdScaleMul, Ind!RdScaleMul)
          /\ Same(Finished, Ind!Finished)
          /\ Same(Next, Ind!Next)
Props    == <<TypeOK, PubEmptyOrComplete, CoordsOldOrNew, AloneOK, LocIsPrefix, ReaderOK, FinalOK>>
IndProps == <<Ind!TypeOK, Ind!PubEmptyOrComplete, Ind!CoordsOldOrNew, Ind!AloneOK, Ind!LocIsPrefix, Ind!ReaderOK, Ind!FinalOK>>
PropEq == /\ Props = IndProps
          /\ ~ ENABLED (Next /\ Props' # IndProps')
ActEq  == /\ ~ ENABLED (Next /\ ~((bpc' # bpc => EffectTo(loc', pub', shared', coords')) <=> Ind!StepsAreEffectsAct))
          /\ ~ ENABLED (Next /\ ~((Len(pub') >= Len(pub)) <=> Ind!TableNeverShrinksAct))
InitEq == Init <=> Ind!Init

(* self-test of this binding: a restatement whose reader never builds a table must be told apart *)
WrongEq == Same(Reader, Ind!RdEq \/ Ind!RdScaleMul)
=============================================================================
