------------------------------ MODULE MC_KeyEnc ------------------------------
(* 1. Header lemma (what bec2format/crypto.py relies on): for P-256 and an uncompressed
      point, EncodeSPKI(P256, 04 || raw) = BEC2_HEADER || raw, 27 + 64 octets, for every raw
      key tried; and no 27-octet string at Hamming distance 1 from BEC2_HEADER, followed by
      the same raw key, parses as a P-256 uncompressed SubjectPublicKeyInfo (HeaderUnique).
      For all 17 curves the header is a function of the curve alone (HeaderPerCurve).
   2. Toy keys (field of two octets, scalar of one) in all shapes: SPKI, SEC1, PKCS#8 x named,
      explicit x uncompressed, compressed, hybrid.  For every encoding e:
        Shapes       the parser returns exactly the fields that were encoded;
        Truncated    every proper prefix is rejected;  Extended: e || b is rejected;
        MutantsTotal for every position and every replacement value the parser returns a
                     verdict, and whatever it accepts is well-formed DER (DecodeTop = ok).
   Self-test: BadHeaderLemma (one wrong octet in the constant) must be refuted. *)
EXTENDS KeyEnc, TLC
CONSTANT Vals            \* replacement values tried at every position (0..255 in the thorough tier)
VARIABLES idx, pos

Fill(n, v) == SubSeq([i \in 1..n |-> v], 1, n)
Ramp(n) == SubSeq([i \in 1..n |-> (i * 37) % 256], 1, n)
Raws(n) == {Fill(n, 0), Fill(n, 255), Ramp(n), [Ramp(n) EXCEPT ![n] = 2]}

HeaderLemmaFor(hdr) ==
    \A raw \in Raws(64) :
        LET e == EncodeSPKI(P256, <<4>> \o raw)
            P == ParseSPKI(e)
        IN  /\ Len(e) = 91 /\ Len(hdr) = 27
            /\ SubSeq(e, 1, 27) = hdr
            /\ SubSeq(e, 28, 91) = raw
            /\ e = hdr \o raw
            /\ DecodeTop(e) = "ok"
            /\ P.ok /\ P.cpe = "named" /\ P.oid = OidBody(P256) /\ P.point = <<4>> \o raw
HeaderLemma == HeaderLemmaFor(BEC2_HEADER)
BadHeaderLemma == (idx \in Nat) => HeaderLemmaFor([BEC2_HEADER EXCEPT ![25] = 65])

HeaderPerCurve ==
    \A c \in CurveNames :
        LET ct == CurveTab[c]
            L2 == 2 * ct.L
            e1 == EncodeSPKI(ct.arcs, <<4>> \o Fill(L2, 0))
            e2 == EncodeSPKI(ct.arcs, <<4>> \o Ramp(L2))
            h  == Len(e1) - L2
        IN  /\ Len(e2) = Len(e1)
            /\ SubSeq(e1, 1, h) = SubSeq(e2, 1, h)
            /\ SubSeq(e2, h + 1, Len(e2)) = Ramp(L2)
            /\ ParseSPKI(e2).ok /\ ParseSPKI(e2).oid = OidBody(ct.arcs)
            /\ PointForm(ParseSPKI(e2).point, ct.L) = "uncompressed"
            /\ (c = "prime256v1") => (SubSeq(e1, 1, h) = BEC2_HEADER)

\* ---- header mutants: idx = position 1..27, pos unused
InitHdr == idx \in 1..27 /\ pos = 0
NextHdr == FALSE /\ UNCHANGED <<idx, pos>>
HeaderUnique ==
    \A v \in 0..255 : \A raw \in {Ramp(64)} :
        (v # BEC2_HEADER[idx]) =>
            LET P == ParseSPKI([BEC2_HEADER EXCEPT ![idx] = v] \o raw)
            IN  ~(P.ok /\ P.cpe = "named" /\ P.oid = OidBody(P256) /\ PointForm(P.point, 32) = "uncompressed")
ASSUME HeaderLemma /\ HeaderPerCurve

\* text representations of a PEM file: CRLF line ends / blank lines / trailing blanks are the same text,
\* any changed, dropped or added visible character is not
CrLf(t) == LET n == Len(t) IN SubSeq([j \in 1..(2 * n) |-> IF (j % 2) = 1 THEN (IF t[(j + 1) \div 2] = 10 THEN 13 ELSE 32) ELSE t[j \div 2]], 1, 2 * n)
PemTextLemma ==
    \A kind \in DOMAIN PemLabel : \A n \in {1, 2, 3, 47, 48, 49, 100} :
        LET t == EncodePEM(kind, Ramp(n)) IN
        /\ SameText(CrLf(t), t)
        /\ SameText(<<10, 32, 10>> \o t \o <<13, 10, 9, 10>>, t)
        /\ SameText(SubSeq(t, 1, Len(t) - 1), t)
        /\ ~SameText(SubSeq(t, 1, Len(t) - 2), t)
        /\ ~SameText(Tail(t), t)
        /\ ~SameText([t EXCEPT ![40] = IF t[40] = 65 THEN 66 ELSE 65], t)
        /\ Len(CrLf(t)) = 2 * Len(t)
ASSUME PemTextLemma

\* ---- toy keys
ToyArcs == <<1, 3, 132, 0, 6>>
ToyPriv == <<7>>
ToyRaw == <<3, 9, 4, 8>>
ToyExplicit == EncSeq(<<EncSmallInt(1),
                        EncSeq(<<EncOid(OID_PRIME_FIELD), EncUInt(<<251, 1>>)>>),
                        EncSeq(<<EncOctets(<<0, 1>>), EncOctets(<<0, 2>>)>>),
                        EncOctets(<<4, 5, 6, 7, 8>>), EncUInt(<<241>>), EncSmallInt(1)>>)
ToyExplicitSeed == EncSeq(<<EncSmallInt(1),
                        EncSeq(<<EncOid(OID_PRIME_FIELD), EncUInt(<<251, 1>>)>>),
                        EncSeq(<<EncOctets(<<0, 1>>), EncOctets(<<0, 2>>), EncBits(0, <<77>>)>>),
                        EncOctets(<<2, 5, 6>>), EncUInt(<<241>>)>>)
Forms == <<"uncompressed", "compressed", "hybrid">>
ParamSets == <<[cpe |-> "named", der |-> EncOid(ToyArcs)], [cpe |-> "explicit", der |-> ToyExplicit],
               [cpe |-> "explicit", der |-> ToyExplicitSeed]>>
\* 27 base encodings: kind x params x form
BaseOf(k) ==
    LET kind == (k - 1) \div 9
        ps   == ParamSets[(((k - 1) \div 3) % 3) + 1]
        pt   == EncodePoint(Forms[((k - 1) % 3) + 1], ToyRaw)
    IN  [kind |-> kind, cpe |-> ps.cpe, point |-> pt,
         enc |-> IF kind = 0 THEN EncodeSPKIParams(ps.der, pt)
                 ELSE IF kind = 1 THEN EncodeSEC1(ToyPriv, ps.der, pt)
                 ELSE EncodePKCS8(0, ps.der, ToyPriv, pt)]
NBase == 27
ParseKind(kind, s) == IF kind = 0 THEN ParseSPKI(s) ELSE IF kind = 1 THEN ParseSEC1(s, 1, Len(s)) ELSE ParsePKCS8(s)

InitToy == idx \in 1..NBase /\ pos = 0
NextToy == pos < Len(BaseOf(idx).enc) /\ pos' = pos + 1 /\ idx' = idx

Shapes == (pos = 0) =>
    LET B == BaseOf(idx)
        P == ParseKind(B.kind, B.enc)
    IN  /\ P.ok /\ P.cpe = B.cpe /\ P.point = B.point
        /\ (B.kind # 0) => (P.priv = ToyPriv)
        /\ (B.cpe = "named") => (P.oid = OidBody(ToyArcs))
        /\ (B.cpe = "explicit") => (P.L = 2)
        /\ DecodeTop(B.enc) = "ok"
        /\ PointForm(B.point, 2) = Forms[((idx - 1) % 3) + 1]
Truncated == (pos = 0) =>
    LET B == BaseOf(idx) IN \A k \in 0..(Len(B.enc) - 1) : ~ParseKind(B.kind, SubSeq(B.enc, 1, k)).ok
Extended == (pos = 0) =>
    LET B == BaseOf(idx) IN \A b \in {0, 48, 255} : ~ParseKind(B.kind, Append(B.enc, b)).ok
MutantsTotal == (pos > 0) =>
    LET B == BaseOf(idx) IN
    \A v \in Vals :
        LET m == [B.enc EXCEPT ![pos] = v]
            P == ParseKind(B.kind, m)
        IN  /\ P.ok \in BOOLEAN
            /\ P.ok => DecodeTop(m) = "ok"
\* PKCS#8 version rule of RFC 5958 on the toy encodings
VersionRule == (pos = 0 /\ BaseOf(idx).kind = 2) =>
    LET e == BaseOf(idx).enc IN ~PKCS8HasPublicKey(e) /\ ParsePKCS8(e).ver = 0
\* vacuity: some accepted mutant exists (e.g. a changed coordinate octet)
SomeMutantAccepted == ~(pos > 0 /\ \E v \in Vals : v # BaseOf(idx).enc[pos] /\ ParseKind(BaseOf(idx).kind, [BaseOf(idx).enc EXCEPT ![pos] = v]).ok)
=============================================================================
