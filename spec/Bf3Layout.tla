------------------------------ MODULE Bf3Layout ------------------------------
(* The BF3 container: directory + payloads.  One text, two instances:
     concrete  cells are bytes 0..255, W_ADR = W_LEN = 4, W_MAC = 16, BLK = 16, Mac/Enc/Dec from AES.tla
     abstract  cells are records (integer cell, MAC token, cipher token, garbage), widths 1, BLK = 2
   Serialize is written from the documented layout (property C03), Parse mirrors the steps of
   bf3file.dir_from_binary / from_binary.  Deviations of the code from the ideal are named switches. *)
EXTENDS Naturals, Sequences, FiniteSets
CONSTANTS W_ADR, W_LEN, W_MAC, BLK, Base, Huge,
          Cell(_), Val(_),               \* integer -> cell, cell -> integer (Huge if the cell is not a number)
          Mac(_, _, _),                  \* (key, iv index, data cells) -> W_MAC cells; iv index 0 = zero IV
          Enc(_, _), Dec(_, _),          \* (key, BLK-aligned cells) -> cells
          ENC_TAG, ENC_SESSION,          \* tag id and value cell sequence selecting session-key encryption
          SHORT_READ_OK,                 \* switch: reads past the end return short data (code before fix #3)
          ENC_NEVER_DECRYPTS,            \* switch: reader never decrypts (code before fix #2)
          KeyA, KeyB, GarbageCell        \* two distinct session keys and a cell no MAC produces (lenient serialiser, C05)

Min(a, b) == IF a < b THEN a ELSE b
Mat(f, n) == SubSeq(f, 1, n)             \* materialise a function constructor as a tuple (TLC: strict)
ZeroCell == Cell(0)

\* ---------------------------------------------------------------- integers <-> cells
RECURSIVE Pow(_, _)
Pow(b, e) == IF e = 0 THEN 1 ELSE b * Pow(b, e - 1)
BE(n, w) == Mat([i \in 1..w |-> Cell((n \div Pow(Base, w - i)) % Base)], w)
RECURSIVE IntAcc(_, _, _)
IntAcc(cs, i, acc) ==
    IF i > Len(cs) THEN acc
    ELSE LET v == Val(cs[i]) IN
         IF v >= Huge \/ acc >= Huge \div Base THEN Huge ELSE IntAcc(cs, i + 1, acc * Base + v)
IntOf(cs) == IntAcc(cs, 1, 0)            \* int.from_bytes(cs, "big"), saturating at Huge; IntOf(<<>>) = 0

PadLen(n) == (BLK - (n % BLK)) % BLK
PadBlk(d) == d \o Mat([i \in 1..PadLen(Len(d)) |-> ZeroCell], PadLen(Len(d)))

\* ---------------------------------------------------------------- serialiser (documented layout)
\* component: [desc |-> << <<tag, valuecells>>, .. >>, blob |-> cells, alen |-> Nat, enc |-> BOOLEAN]
RECURSIVE TlvsFrom(_, _)
TlvsFrom(desc, i) == IF i > Len(desc) THEN <<>>
                     ELSE <<Cell(desc[i][1]), Cell(Len(desc[i][2]))>> \o desc[i][2] \o TlvsFrom(desc, i + 1)
Tlvs(desc) == TlvsFrom(desc, 1)
Raw(c, key) == IF c.enc THEN Enc(key, PadBlk(c.blob)) ELSE c.blob
EntryBody(c, adr, key) ==
    LET raw == Raw(c, key)  t == Tlvs(c.desc) IN
    BE(adr, W_ADR) \o BE(Len(raw), W_LEN) \o BE(c.alen, W_LEN) \o Mac(key, 0, raw) \o <<Cell(Len(t))>> \o t
Entry(c, i, adr, key) ==
    LET b == EntryBody(c, adr, key) IN <<Cell(Len(b) + W_MAC)>> \o b \o Mac(key, i, b)
RECURSIVE EntriesFrom(_, _, _, _)
EntriesFrom(comps, i, adr, key) ==
    IF i > Len(comps) THEN <<>>
    ELSE Entry(comps[i], i, adr, key) \o EntriesFrom(comps, i + 1, adr + Len(Raw(comps[i], key)), key)
RECURSIVE PayloadsFrom(_, _, _)
PayloadsFrom(comps, i, key) == IF i > Len(comps) THEN <<>> ELSE Raw(comps[i], key) \o PayloadsFrom(comps, i + 1, key)
\* size of "length field + directory + sentinel": depends on neither key nor addresses
EntryLen(c) == 1 + W_ADR + 2 * W_LEN + W_MAC + 1 + Len(Tlvs(c.desc)) + W_MAC
RECURSIVE DirLenFrom(_, _)
DirLenFrom(comps, i) == IF i > Len(comps) THEN 0 ELSE EntryLen(comps[i]) + DirLenFrom(comps, i + 1)
DirSize(comps) == W_LEN + DirLenFrom(comps, 1) + 1
\* off = absolute offset of the directory-size field in the file (5 for BF3, header length for BEC2)
Serialize(comps, off, key) ==
    LET dir == EntriesFrom(comps, 1, off + DirSize(comps), key) \o <<ZeroCell>>
    IN  BE(Len(dir), W_LEN) \o dir \o PayloadsFrom(comps, 1, key)

\* ---------------------------------------------------------------- lenient serialiser (C05)
\* Writes a file from a descriptor whose fields may be inconsistent; MACs are computed over the bytes actually
\* written, so only the structural rule under test is broken.  Entry descriptor e:
\*   [c, lenD, adrD, totD, declared, dlenD, dup, tlenD, stray, emac, pmac]   (D = delta to the consistent value;
\*    stray = cells inserted between the description and the entry MAC, covered by the entry length and the MAC)
\*   emac \in {"valid","idx-1","idx+1","otherkey","garbage"}   pmac \in {"valid","otherkey","garbage"}
\* File descriptor d: [ents, dirD, sentinel \in {"present","absent","nonzero"}, trailing (cells), swap (BOOLEAN)]
Nat0(x) == IF x < 0 THEN 0 ELSE x
OtherKey(key) == IF key = KeyA THEN KeyB ELSE KeyA
Garbage(w) == Mat([j \in 1..w |-> GarbageCell], w)
RawTlvs(e) ==
    LET t0 == Tlvs(e.c.desc)
        t1 == IF e.dup /\ Len(e.c.desc) > 0 THEN t0 \o <<Cell(e.c.desc[1][1]), Cell(0)>> ELSE t0     \* first tag repeated (empty value)
    IN  IF e.tlenD # 0 /\ Len(e.c.desc) > 0
        THEN LET k == Len(e.c.desc)  lastpos == Len(Tlvs(SubSeq(e.c.desc, 1, k - 1))) + 2      \* position of the last tag's length cell
             IN [t1 EXCEPT ![lastpos] = Cell(Nat0(Len(e.c.desc[k][2]) + e.tlenD))]
        ELSE t1
RawEntry(e, i, adr, key) ==
    LET raw  == Raw(e.c, key)
        t    == RawTlvs(e)
        pm   == IF e.pmac = "valid" THEN Mac(key, 0, raw) ELSE IF e.pmac = "otherkey" THEN Mac(OtherKey(key), 0, raw) ELSE Garbage(W_MAC)
        body == BE(Nat0(adr + e.adrD), W_ADR) \o BE(Nat0(Len(raw) + e.totD), W_LEN) \o BE(e.declared, W_LEN) \o pm
                \o <<Cell(Nat0(Len(t) + e.dlenD))>> \o t \o e.stray
        em   == IF e.emac = "valid" THEN Mac(key, i, body) ELSE IF e.emac = "idx-1" THEN Mac(key, i - 1, body)
                ELSE IF e.emac = "idx+1" THEN Mac(key, i + 1, body) ELSE IF e.emac = "otherkey" THEN Mac(OtherKey(key), i, body)
                ELSE Garbage(W_MAC)
    IN  <<Cell(Nat0(Len(body) + W_MAC + e.lenD))>> \o body \o em
RawEntryLen(e) == 1 + W_ADR + 2 * W_LEN + W_MAC + 1 + Len(RawTlvs(e)) + Len(e.stray) + W_MAC
RECURSIVE RawDirLen(_, _)
RawDirLen(ents, i) == IF i > Len(ents) THEN 0 ELSE RawEntryLen(ents[i]) + RawDirLen(ents, i + 1)
RECURSIVE RawEntries(_, _, _, _, _)
RawEntries(ents, order, i, adrs, key) ==      \* order[i] = which descriptor is written at directory position i
    IF i > Len(ents) THEN <<>>
    ELSE RawEntry(ents[order[i]], i, adrs[order[i]], key) \o RawEntries(ents, order, i + 1, adrs, key)
RECURSIVE RawPayloads(_, _, _)
RawPayloads(ents, i, key) == IF i > Len(ents) THEN <<>> ELSE Raw(ents[i].c, key) \o RawPayloads(ents, i + 1, key)
SerializeRaw(d, off, key) ==
    LET n     == Len(d.ents)
        sent  == IF d.sentinel = "present" THEN <<ZeroCell>> ELSE IF d.sentinel = "absent" THEN <<>> ELSE <<Cell(1)>>
        dsize == W_LEN + RawDirLen(d.ents, 1) + Len(sent)
        RECURSIVE AdrOf(_)
        AdrOf(j) == IF j = 1 THEN off + dsize ELSE AdrOf(j - 1) + Len(Raw(d.ents[j - 1].c, key))
        adrs  == Mat([j \in 1..n |-> AdrOf(j)], n)
        order == IF d.swap /\ n = 2 THEN <<2, 1>> ELSE Mat([j \in 1..n |-> j], n)
        dir   == RawEntries(d.ents, order, 1, adrs, key) \o sent
    IN  BE(Nat0(Len(dir) + d.dirD), W_LEN) \o dir \o RawPayloads(d.ents, 1, key) \o d.trailing
NominalEntry(c) == [c |-> c, lenD |-> 0, adrD |-> 0, totD |-> 0, declared |-> c.alen, dlenD |-> 0, dup |-> FALSE, tlenD |-> 0,
                    stray |-> <<>>, emac |-> "valid", pmac |-> "valid"]
EntryDeviations(e) == (IF e.lenD # 0 THEN 1 ELSE 0) + (IF e.adrD # 0 THEN 1 ELSE 0) + (IF e.totD # 0 THEN 1 ELSE 0)
                      + (IF e.declared # e.c.alen THEN 1 ELSE 0) + (IF e.dlenD # 0 THEN 1 ELSE 0) + (IF e.dup THEN 1 ELSE 0)
                      + (IF e.tlenD # 0 THEN 1 ELSE 0) + (IF e.stray # <<>> THEN 1 ELSE 0) + (IF e.emac # "valid" THEN 1 ELSE 0) + (IF e.pmac # "valid" THEN 1 ELSE 0)
RECURSIVE SumDev(_, _)
SumDev(ents, i) == IF i > Len(ents) THEN 0 ELSE EntryDeviations(ents[i]) + SumDev(ents, i + 1)
Deviations(d) == SumDev(d.ents, 1) + (IF d.dirD # 0 THEN 1 ELSE 0) + (IF d.sentinel # "present" THEN 1 ELSE 0)
                 + (IF d.trailing # <<>> THEN 1 ELSE 0) + (IF d.swap THEN 1 ELSE 0)

\* ---------------------------------------------------------------- reader
\* a read of n cells at position p (0-based) of cs
CanRead(cs, p, n) == SHORT_READ_OK \/ (n < Huge /\ p + n <= Len(cs))
Rd(cs, p, n) == SubSeq(cs, p + 1, Min(p + (IF n >= Huge THEN Len(cs) ELSE n), Len(cs)))
Adv(cs, p, n) == Min(p + (IF n >= Huge THEN Len(cs) ELSE n), Len(cs))

Err(e) == [ok |-> FALSE, err |-> e, comps |-> <<>>]

\* description TLVs: returns [ok, err, desc]
RECURSIVE DescFrom(_, _, _)
DescFrom(d, p, acc) ==
    IF p = Len(d) THEN [ok |-> TRUE, err |-> "", desc |-> acc]
    ELSE IF ~CanRead(d, p, 1) \/ ~CanRead(d, p + 1, 1) THEN [ok |-> FALSE, err |-> "desc-short", desc |-> <<>>]
    ELSE LET tag  == IntOf(Rd(d, p, 1))
             tlen == IntOf(Rd(d, Adv(d, p, 1), 1))
             q    == Adv(d, Adv(d, p, 1), 1)
         IN  IF ~CanRead(d, q, tlen) THEN [ok |-> FALSE, err |-> "tag-len-overlong", desc |-> <<>>]
             ELSE IF \E j \in 1..Len(acc) : acc[j][1] = tag THEN [ok |-> FALSE, err |-> "dup-tag", desc |-> <<>>]
             ELSE DescFrom(d, Adv(d, q, tlen), Append(acc, <<tag, Rd(d, q, tlen)>>))

\* one directory entry e (without its length cell), 1-based index i: [ok, err, adr, total, plen, pmac, desc]
EntryErr(e) == [ok |-> FALSE, err |-> e, adr |-> 0, total |-> 0, plen |-> 0, pmac |-> <<>>, desc |-> <<>>]
ParseEntry(e, i, key, check) ==
    LET pA == 0  pT == Adv(e, pA, W_ADR)  pL == Adv(e, pT, W_LEN)  pM == Adv(e, pL, W_LEN)
        pD == Adv(e, pM, W_MAC)  pV == Adv(e, pD, 1)
        adr == IntOf(Rd(e, pA, W_ADR))  total == IntOf(Rd(e, pT, W_LEN))  plen == IntOf(Rd(e, pL, W_LEN))
        dlen == IntOf(Rd(e, pD, 1))
        pS == Adv(e, pV, dlen)
    IN  IF ~(CanRead(e, pA, W_ADR) /\ CanRead(e, pT, W_LEN) /\ CanRead(e, pL, W_LEN)) THEN EntryErr("entry-short")
        ELSE IF total < plen THEN EntryErr("declared-gt-stored")
        ELSE IF ~(CanRead(e, pM, W_MAC) /\ CanRead(e, pD, 1) /\ CanRead(e, pV, dlen)) THEN EntryErr("entry-short")
        ELSE LET dr == DescFrom(Rd(e, pV, dlen), 0, <<>>) IN
             IF ~dr.ok THEN EntryErr(dr.err)
             ELSE IF ~CanRead(e, pS, W_MAC) THEN EntryErr("entry-short")
             ELSE IF check /\ Rd(e, pS, W_MAC) # Mac(key, i, SubSeq(e, 1, Len(e) - W_MAC)) THEN EntryErr("entry-mac")
             ELSE IF Adv(e, pS, W_MAC) # Len(e) THEN EntryErr("entry-trailing")
             ELSE [ok |-> TRUE, err |-> "", adr |-> adr, total |-> total, plen |-> plen,
                   pmac |-> Rd(e, pM, W_MAC), desc |-> dr.desc]

\* the directory d (after its size field): sequence of entries closed by a zero length cell
RECURSIVE DirFrom(_, _, _, _, _, _)
DirFrom(d, p, i, key, check, acc) ==
    IF ~CanRead(d, p, 1) THEN [ok |-> FALSE, err |-> "dir-no-sentinel", ents |-> <<>>]
    ELSE LET elen == IntOf(Rd(d, p, 1))  q == Adv(d, p, 1) IN
         IF elen = 0 THEN (IF q = Len(d) THEN [ok |-> TRUE, err |-> "", ents |-> acc]
                           ELSE [ok |-> FALSE, err |-> "dir-trailing", ents |-> <<>>])
         ELSE IF ~CanRead(d, q, elen) THEN [ok |-> FALSE, err |-> "entry-len-overlong", ents |-> <<>>]
         ELSE LET pe == ParseEntry(Rd(d, q, elen), i, key, check) IN
              IF ~pe.ok THEN [ok |-> FALSE, err |-> pe.err, ents |-> <<>>]
              ELSE DirFrom(d, Adv(d, q, elen), i + 1, key, check, Append(acc, pe))

IsEncDesc(desc) == \E j \in 1..Len(desc) : desc[j][1] = ENC_TAG /\ desc[j][2] = ENC_SESSION
MkComp(ent, payload, key) ==
    LET dec == IsEncDesc(ent.desc) /\ ~ENC_NEVER_DECRYPTS
        blob == IF dec THEN Dec(key, payload) ELSE payload
    IN  [desc |-> ent.desc, blob |-> blob, alen |-> IF ent.plen = 0 THEN Len(blob) ELSE ent.plen, enc |-> dec]
RECURSIVE PayFrom(_, _, _, _, _, _, _)
PayFrom(file, p, ents, i, key, check, acc) ==
    IF i > Len(ents) THEN (IF p = Len(file) THEN [ok |-> TRUE, err |-> "", comps |-> acc] ELSE Err("file-trailing"))
    ELSE LET en == ents[i] IN
         IF en.adr # p THEN Err("address")
         ELSE IF ~CanRead(file, p, en.total) THEN Err("payload-short")
         ELSE LET pl == Rd(file, p, en.total) IN
              IF check /\ (Len(pl) = 0 \/ Mac(key, 0, pl) # en.pmac) THEN Err("payload-mac")
              ELSE IF IsEncDesc(en.desc) /\ ~ENC_NEVER_DECRYPTS /\ (Len(pl) = 0 \/ Len(pl) % BLK # 0) THEN Err("enc-length")
              ELSE PayFrom(file, Adv(file, p, en.total), ents, i + 1, key, check, Append(acc, MkComp(en, pl, key)))

\* file: all cells of the binary; off: position of the directory-size field (signature/header already consumed)
Parse(file, off, key, check) ==
    IF ~CanRead(file, off, W_LEN) THEN Err("dirsize-short")
    ELSE LET dsz == IntOf(Rd(file, off, W_LEN))  p == Adv(file, off, W_LEN) IN
         IF ~CanRead(file, p, dsz) THEN Err("dir-short")
         ELSE LET dr == DirFrom(Rd(file, p, dsz), 0, 1, key, check, <<>>) IN
              IF ~dr.ok THEN Err(dr.err)
              ELSE PayFrom(file, Adv(file, p, dsz), dr.ents, 1, key, check, <<>>)
=============================================================================
