------------------------------ MODULE Bf3Layout ------------------------------
(* The BF3 container: directory + payloads.  One text, two instances:
     concrete  cells are bytes 0..255, W_ADR = W_LEN = 4, W_MAC = 16, BLK = 16, Mac/Enc/Dec from AES.tla
     abstract  cells are records (integer cell, MAC token, cipher token, garbage), widths 1, BLK = 2
   Serialize is written from the documented layout (property C03), Parse mirrors the steps of
   bf3file.dir_from_binary / from_binary.  Deviations of the code from the ideal are named switches. *)
EXTENDS Naturals, Sequences, FiniteSets
CONSTANTS W_ADR, W_LEN, W_MAC, BLK, Base, Huge,
          Cell(_), Val(_),               \* integer -> cell, cell -> integer (Huge if the cell is not a number)
          Mac(_, _, _),                  \* (key, iv index, data cells) -> W_MAC cells; iv index 0 = zero IV
          Enc(_, _), Dec(_, _),          \* (key, BLK-aligned cells) -> cells
          ENC_TAG, ENC_SESSION,          \* tag id and value cell sequence selecting session-key encryption
          SHORT_READ_OK,                 \* switch: reads past the end return short data (code before fix #3)
          ENC_NEVER_DECRYPTS             \* switch: reader never decrypts (code before fix #2)

Min(a, b) == IF a < b THEN a ELSE b
Mat(f, n) == SubSeq(f, 1, n)             \* materialise a function constructor as a tuple (TLC: strict)
ZeroCell == Cell(0)

\* ---------------------------------------------------------------- integers <-> cells
RECURSIVE Pow(_, _)
Pow(b, e) == IF e = 0 THEN 1 ELSE b * Pow(b, e - 1)
BE(n, w) == Mat([i \in 1..w |-> Cell((n \div Pow(Base, w - i)) % Base)], w)
RECURSIVE IntAcc(_, _, _)
IntAcc(cs, i, acc) ==
    IF i > Len(cs) THEN acc
    ELSE LET v == Val(cs[i]) IN
         IF v >= Huge \/ acc >= Huge \div Base THEN Huge ELSE IntAcc(cs, i + 1, acc * Base + v)
IntOf(cs) == IntAcc(cs, 1, 0)            \* int.from_bytes(cs, "big"), saturating at Huge; IntOf(<<>>) = 0

PadLen(n) == (BLK - (n % BLK)) % BLK
PadBlk(d) == d \o Mat([i \in 1..PadLen(Len(d)) |-> ZeroCell], PadLen(Len(d)))

\* ---------------------------------------------------------------- serialiser (documented layout)
\* component: [desc |-> << <<tag, valuecells>>, .. >>, blob |-> cells, alen |-> Nat, enc |-> BOOLEAN]
RECURSIVE TlvsFrom(_, _)
TlvsFrom(desc, i) == IF i > Len(desc) THEN <<>>
                     ELSE <<Cell(desc[i][1]), Cell(Len(desc[i][2]))>> \o desc[i][2] \o TlvsFrom(desc, i + 1)
Tlvs(desc) == TlvsFrom(desc, 1)
Raw(c, key) == IF c.enc THEN Enc(key, PadBlk(c.blob)) ELSE c.blob
EntryBody(c, adr, key) ==
    LET raw == Raw(c, key)  t == Tlvs(c.desc) IN
    BE(adr, W_ADR) \o BE(Len(raw), W_LEN) \o BE(c.alen, W_LEN) \o Mac(key, 0, raw) \o <<Cell(Len(t))>> \o t
Entry(c, i, adr, key) ==
    LET b == EntryBody(c, adr, key) IN <<Cell(Len(b) + W_MAC)>> \o b \o Mac(key, i, b)
RECURSIVE EntriesFrom(_, _, _, _)
EntriesFrom(comps, i, adr, key) ==
    IF i > Len(comps) THEN <<>>
    ELSE Entry(comps[i], i, adr, key) \o EntriesFrom(comps, i + 1, adr + Len(Raw(comps[i], key)), key)
RECURSIVE PayloadsFrom(_, _, _)
PayloadsFrom(comps, i, key) == IF i > Len(comps) THEN <<>> ELSE Raw(comps[i], key) \o PayloadsFrom(comps, i + 1, key)
\* size of "length field + directory + sentinel": depends on neither key nor addresses
EntryLen(c) == 1 + W_ADR + 2 * W_LEN + W_MAC + 1 + Len(Tlvs(c.desc)) + W_MAC
RECURSIVE DirLenFrom(_, _)
DirLenFrom(comps, i) == IF i > Len(comps) THEN 0 ELSE EntryLen(comps[i]) + DirLenFrom(comps, i + 1)
DirSize(comps) == W_LEN + DirLenFrom(comps, 1) + 1
\* off = absolute offset of the directory-size field in the file (5 for BF3, header length for BEC2)
Serialize(comps, off, key) ==
    LET dir == EntriesFrom(comps, 1, off + DirSize(comps), key) \o <<ZeroCell>>
    IN  BE(Len(dir), W_LEN) \o dir \o PayloadsFrom(comps, 1, key)

\* ---------------------------------------------------------------- reader
\* a read of n cells at position p (0-based) of cs
CanRead(cs, p, n) == SHORT_READ_OK \/ (n < Huge /\ p + n <= Len(cs))
Rd(cs, p, n) == SubSeq(cs, p + 1, Min(p + (IF n >= Huge THEN Len(cs) ELSE n), Len(cs)))
Adv(cs, p, n) == Min(p + (IF n >= Huge THEN Len(cs) ELSE n), Len(cs))

Err(e) == [ok |-> FALSE, err |-> e, comps |-> <<>>]

\* description TLVs: returns [ok, err, desc]
RECURSIVE DescFrom(_, _, _)
DescFrom(d, p, acc) ==
    IF p = Len(d) THEN [ok |-> TRUE, err |-> "", desc |-> acc]
    ELSE IF ~CanRead(d, p, 1) \/ ~CanRead(d, p + 1, 1) THEN [ok |-> FALSE, err |-> "desc-short", desc |-> <<>>]
    ELSE LET tag  == IntOf(Rd(d, p, 1))
             tlen == IntOf(Rd(d, Adv(d, p, 1), 1))
             q    == Adv(d, Adv(d, p, 1), 1)
         IN  IF ~CanRead(d, q, tlen) THEN [ok |-> FALSE, err |-> "tag-len-overlong", desc |-> <<>>]
             ELSE IF \E j \in 1..Len(acc) : acc[j][1] = tag THEN [ok |-> FALSE, err |-> "dup-tag", desc |-> <<>>]
             ELSE DescFrom(d, Adv(d, q, tlen), Append(acc, <<tag, Rd(d, q, tlen)>>))

\* one directory entry e (without its length cell), 1-based index i: [ok, err, adr, total, plen, pmac, desc]
EntryErr(e) == [ok |-> FALSE, err |-> e, adr |-> 0, total |-> 0, plen |-> 0, pmac |-> <<>>, desc |-> <<>>]
ParseEntry(e, i, key, check) ==
    LET pA == 0  pT == Adv(e, pA, W_ADR)  pL == Adv(e, pT, W_LEN)  pM == Adv(e, pL, W_LEN)
        pD == Adv(e, pM, W_MAC)  pV == Adv(e, pD, 1)
        adr == IntOf(Rd(e, pA, W_ADR))  total == IntOf(Rd(e, pT, W_LEN))  plen == IntOf(Rd(e, pL, W_LEN))
        dlen == IntOf(Rd(e, pD, 1))
        pS == Adv(e, pV, dlen)
    IN  IF ~(CanRead(e, pA, W_ADR) /\ CanRead(e, pT, W_LEN) /\ CanRead(e, pL, W_LEN)) THEN EntryErr("entry-short")
        ELSE IF total < plen THEN EntryErr("declared-gt-stored")
        ELSE IF ~(CanRead(e, pM, W_MAC) /\ CanRead(e, pD, 1) /\ CanRead(e, pV, dlen)) THEN EntryErr("entry-short")
        ELSE LET dr == DescFrom(Rd(e, pV, dlen), 0, <<>>) IN
             IF ~dr.ok THEN EntryErr(dr.err)
             ELSE IF ~CanRead(e, pS, W_MAC) THEN EntryErr("entry-short")
             ELSE IF check /\ Rd(e, pS, W_MAC) # Mac(key, i, SubSeq(e, 1, Len(e) - W_MAC)) THEN EntryErr("entry-mac")
             ELSE IF Adv(e, pS, W_MAC) # Len(e) THEN EntryErr("entry-trailing")
             ELSE [ok |-> TRUE, err |-> "", adr |-> adr, total |-> total, plen |-> plen,
                   pmac |-> Rd(e, pM, W_MAC), desc |-> dr.desc]

\* the directory d (after its size field): sequence of entries closed by a zero length cell
RECURSIVE DirFrom(_, _, _, _, _, _)
DirFrom(d, p, i, key, check, acc) ==
    IF ~CanRead(d, p, 1) THEN [ok |-> FALSE, err |-> "dir-no-sentinel", ents |-> <<>>]
    ELSE LET elen == IntOf(Rd(d, p, 1))  q == Adv(d, p, 1) IN
         IF elen = 0 THEN (IF q = Len(d) THEN [ok |-> TRUE, err |-> "", ents |-> acc]
                           ELSE [ok |-> FALSE, err |-> "dir-trailing", ents |-> <<>>])
         ELSE IF ~CanRead(d, q, elen) THEN [ok |-> FALSE, err |-> "entry-len-overlong", ents |-> <<>>]
         ELSE LET pe == ParseEntry(Rd(d, q, elen), i, key, check) IN
              IF ~pe.ok THEN [ok |-> FALSE, err |-> pe.err, ents |-> <<>>]
              ELSE DirFrom(d, Adv(d, q, elen), i + 1, key, check, Append(acc, pe))

IsEncDesc(desc) == \E j \in 1..Len(desc) : desc[j][1] = ENC_TAG /\ desc[j][2] = ENC_SESSION
MkComp(ent, payload, key) ==
    LET dec == IsEncDesc(ent.desc) /\ ~ENC_NEVER_DECRYPTS
        blob == IF dec THEN Dec(key, payload) ELSE payload
    IN  [desc |-> ent.desc, blob |-> blob, alen |-> IF ent.plen = 0 THEN Len(blob) ELSE ent.plen, enc |-> dec]
RECURSIVE PayFrom(_, _, _, _, _, _, _)
PayFrom(file, p, ents, i, key, check, acc) ==
    IF i > Len(ents) THEN (IF p = Len(file) THEN [ok |-> TRUE, err |-> "", comps |-> acc] ELSE Err("file-trailing"))
    ELSE LET en == ents[i] IN
         IF en.adr # p THEN Err("address")
         ELSE IF ~CanRead(file, p, en.total) THEN Err("payload-short")
         ELSE LET pl == Rd(file, p, en.total) IN
              IF check /\ (Len(pl) = 0 \/ Mac(key, 0, pl) # en.pmac) THEN Err("payload-mac")
              ELSE IF IsEncDesc(en.desc) /\ ~ENC_NEVER_DECRYPTS /\ (Len(pl) = 0 \/ Len(pl) % BLK # 0) THEN Err("enc-length")
              ELSE PayFrom(file, Adv(file, p, en.total), ents, i + 1, key, check, Append(acc, MkComp(en, pl, key)))

\* file: all cells of the binary; off: position of the directory-size field (signature/header already consumed)
Parse(file, off, key, check) ==
    IF ~CanRead(file, off, W_LEN) THEN Err("dirsize-short")
    ELSE LET dsz == IntOf(Rd(file, off, W_LEN))  p == Adv(file, off, W_LEN) IN
         IF ~CanRead(file, p, dsz) THEN Err("dir-short")
         ELSE LET dr == DirFrom(Rd(file, p, dsz), 0, 1, key, check, <<>>) IN
              IF ~dr.ok THEN Err(dr.err)
              ELSE PayFrom(file, Adv(file, p, dsz), dr.ents, 1, key, check, <<>>)
=============================================================================
