----------------------------- MODULE RWLockFine -----------------------------
(* The reader-writer lock at STATEMENT granularity: in each of the four light-switch operations the acquisition of the
   switch mutex, the update of the counter and the test of the counter are three separate steps (labels x, x_inc, x_tst),
   as a thread that can be pre-empted between any two byte codes would execute them.  TLC checks that this model
   REFINES RWLock (the lock-operation model that is walked on the real lock): under the mapping below the mutex
   acquisition is the coarse step and the update and the test are stuttering steps.  This is the argument why
   pre-empting the real code only at lock calls loses no behaviour: the counters are read and written only while
   the protecting mutex is held.  Variant BROKEN_RELEASE (test after releasing the mutex, the seeded change C20_m2)
   is NOT a refinement - TLC refutes it - which shows the refinement check is not vacuous. *)
EXTENDS Naturals, FiniteSets, TLC
CONSTANTS R, W, Passes, BROKEN_RELEASE
VARIABLES pc, owner, rc, wc, left
vars == <<pc, owner, rc, wc, left>>
Readers == 1..R
Writers == (R + 1)..(R + W)
Threads == Readers \cup Writers

Init == /\ pc = [t \in Threads |-> IF t \in Readers THEN "ra_rq" ELSE "wa_wm"]
        /\ owner = [l \in {"rq", "nr", "nw", "rm", "wm"} |-> 0]
        /\ rc = 0 /\ wc = 0 /\ left = [t \in Threads |-> Passes]
Goto(t, l) == pc' = [pc EXCEPT ![t] = l]
Acq(t, from, lk) == pc[t] = from /\ owner[lk] = 0 /\ owner' = [owner EXCEPT ![lk] = t]
Rel(t, from, lk) == pc[t] = from /\ owner[lk] # 0 /\ owner' = [owner EXCEPT ![lk] = 0]
Finish(t, first) == left' = [left EXCEPT ![t] = left[t] - 1] /\ Goto(t, IF left[t] = 1 THEN "done" ELSE first)
Same(x) == UNCHANGED x

\* light switch on counter c (as a pair of get/set), mutex m, gate g; entering (delta = +1) or leaving (delta = -1)
RStep(t) ==
    \/ Acq(t, "ra_rq", "rq") /\ Goto(t, "ra_nr") /\ Same(<<rc, wc, left>>)
    \/ Acq(t, "ra_nr", "nr") /\ Goto(t, "ra_rm") /\ Same(<<rc, wc, left>>)
    \/ Acq(t, "ra_rm", "rm") /\ Goto(t, "ra_rm_inc") /\ Same(<<rc, wc, left>>)
    \/ pc[t] = "ra_rm_inc" /\ rc' = rc + 1 /\ Goto(t, "ra_rm_tst") /\ Same(<<owner, wc, left>>)
    \/ pc[t] = "ra_rm_tst" /\ Goto(t, IF rc = 1 THEN "ra_nw" ELSE "ra_rm_rel") /\ Same(<<owner, rc, wc, left>>)
    \/ Acq(t, "ra_nw", "nw") /\ Goto(t, "ra_rm_rel") /\ Same(<<rc, wc, left>>)
    \/ Rel(t, "ra_rm_rel", "rm") /\ Goto(t, "ra_nr_rel") /\ Same(<<rc, wc, left>>)
    \/ Rel(t, "ra_nr_rel", "nr") /\ Goto(t, "ra_rq_rel") /\ Same(<<rc, wc, left>>)
    \/ Rel(t, "ra_rq_rel", "rq") /\ Goto(t, "r_cs") /\ Same(<<rc, wc, left>>)
    \/ pc[t] = "r_cs" /\ Goto(t, "rr_rm") /\ Same(<<owner, rc, wc, left>>)
    \/ Acq(t, "rr_rm", "rm") /\ Goto(t, "rr_rm_inc") /\ Same(<<rc, wc, left>>)
    \/ pc[t] = "rr_rm_inc" /\ rc' = rc - 1 /\ Same(<<owner, wc, left>>)
         /\ Goto(t, IF BROKEN_RELEASE THEN "rr_rm_rel_early" ELSE "rr_rm_tst")
    \/ pc[t] = "rr_rm_tst" /\ Goto(t, IF rc = 0 THEN "rr_nw_rel" ELSE "rr_rm_rel") /\ Same(<<owner, rc, wc, left>>)
    \/ Rel(t, "rr_nw_rel", "nw") /\ Goto(t, "rr_rm_rel") /\ Same(<<rc, wc, left>>)
    \/ Rel(t, "rr_rm_rel", "rm") /\ Finish(t, "ra_rq") /\ Same(<<rc, wc>>)
    \* the broken variant: mutex released first, then the counter is tested without protection
    \/ Rel(t, "rr_rm_rel_early", "rm") /\ Goto(t, "rr_tst_late") /\ Same(<<rc, wc, left>>)
    \/ pc[t] = "rr_tst_late" /\ Same(<<owner, rc, wc>>)
         /\ IF rc = 0 THEN Goto(t, "rr_nw_rel_late") /\ Same(left) ELSE Finish(t, "ra_rq")
    \/ pc[t] = "rr_nw_rel_late" /\ owner' = [owner EXCEPT !["nw"] = 0] /\ Finish(t, "ra_rq") /\ Same(<<rc, wc>>)
WStep(t) ==
    \/ Acq(t, "wa_wm", "wm") /\ Goto(t, "wa_wm_inc") /\ Same(<<rc, wc, left>>)
    \/ pc[t] = "wa_wm_inc" /\ wc' = wc + 1 /\ Goto(t, "wa_wm_tst") /\ Same(<<owner, rc, left>>)
    \/ pc[t] = "wa_wm_tst" /\ Goto(t, IF wc = 1 THEN "wa_nr" ELSE "wa_wm_rel") /\ Same(<<owner, rc, wc, left>>)
    \/ Acq(t, "wa_nr", "nr") /\ Goto(t, "wa_wm_rel") /\ Same(<<rc, wc, left>>)
    \/ Rel(t, "wa_wm_rel", "wm") /\ Goto(t, "wa_nw") /\ Same(<<rc, wc, left>>)
    \/ Acq(t, "wa_nw", "nw") /\ Goto(t, "w_cs") /\ Same(<<rc, wc, left>>)
    \/ pc[t] = "w_cs" /\ Goto(t, "wr_nw_rel") /\ Same(<<owner, rc, wc, left>>)
    \/ Rel(t, "wr_nw_rel", "nw") /\ Goto(t, "wr_wm") /\ Same(<<rc, wc, left>>)
    \/ Acq(t, "wr_wm", "wm") /\ Goto(t, "wr_wm_inc") /\ Same(<<rc, wc, left>>)
    \/ pc[t] = "wr_wm_inc" /\ wc' = wc - 1 /\ Goto(t, "wr_wm_tst") /\ Same(<<owner, rc, left>>)
    \/ pc[t] = "wr_wm_tst" /\ Goto(t, IF wc = 0 THEN "wr_nr_rel" ELSE "wr_wm_rel") /\ Same(<<owner, rc, wc, left>>)
    \/ Rel(t, "wr_nr_rel", "nr") /\ Goto(t, "wr_wm_rel") /\ Same(<<rc, wc, left>>)
    \/ Rel(t, "wr_wm_rel", "wm") /\ Finish(t, "wa_wm") /\ Same(<<rc, wc>>)
AllDone == \A t \in Threads : pc[t] = "done"
Next == (\E t \in Readers : RStep(t)) \/ (\E t \in Writers : WStep(t)) \/ (AllDone /\ UNCHANGED vars)
Spec == Init /\ [][Next]_vars

\* ---- refinement mapping to the lock-operation model
InWin(t, lab) == pc[t] = lab
Bar(f) == f     \* (readability)
rcBar == rc + Cardinality({t \in Readers : pc[t] = "ra_rm_inc"}) - Cardinality({t \in Readers : pc[t] = "rr_rm_inc"})
wcBar == wc + Cardinality({t \in Writers : pc[t] = "wa_wm_inc"}) - Cardinality({t \in Writers : pc[t] = "wr_wm_inc"})
pcBar == [t \in Threads |->
            IF pc[t] \in {"ra_rm_inc", "ra_rm_tst"} THEN (IF rcBar = 1 THEN "ra_nw" ELSE "ra_rm_rel")
            ELSE IF pc[t] \in {"rr_rm_inc", "rr_rm_tst"} THEN (IF rcBar = 0 THEN "rr_nw_rel" ELSE "rr_rm_rel")
            ELSE IF pc[t] \in {"wa_wm_inc", "wa_wm_tst"} THEN (IF wcBar = 1 THEN "wa_nr" ELSE "wa_wm_rel")
            ELSE IF pc[t] \in {"wr_wm_inc", "wr_wm_tst"} THEN (IF wcBar = 0 THEN "wr_nr_rel" ELSE "wr_wm_rel")
            ELSE IF pc[t] \in {"rr_rm_rel_early", "rr_tst_late", "rr_nw_rel_late"} THEN "rr_rm_rel"     \* (broken variant only)
            ELSE pc[t]]
Coarse == INSTANCE RWLock WITH pc <- pcBar, owner <- owner, rc <- rcBar, wc <- wcBar, left <- left
Refines == Coarse!Init /\ [][Coarse!Next]_<<pcBar, owner, rcBar, wcBar, left>>
\* the safety properties, restated on the fine model
InCS(t) == pc[t] \in {"r_cs", "w_cs"}
Holding(t) == InCS(t) \/ pc[t] \in {"rr_rm", "wr_nw_rel"}
MutexFine == \A w \in Writers : Holding(w) => \A t \in Threads \ {w} : ~Holding(t)
=============================================================================
