-------------------------- MODULE Trace_RWLockAbs --------------------------
(* Observations of the REAL reader-writer lock (black-box exploration of all interleavings under the controlled
   scheduler, harness/blackbox.py; or real pre-emptive threads) judged against RWLockAbs.  Events (independent):
     op "acquire_r" / "release_r" / "acquire_w" / "release_w", t = thread, rd1, wr1 = who held the lock before the
        step, rd2, wr2 = who holds it after it (nr, nw: readers are threads 1..nr, writers nr+1..nr+nw)
     op "deadlock":  a reachable state in which no thread can run although not all are done (n = length of the schedule)
     op "exception": an exception came out of the lock code
     op "overlap":   n = the largest number of readers that held the lock together in any explored state *)
EXTENDS Naturals, Sequences, FiniteSets, Json, IOUtils, TLC
Trace == ndJsonDeserialize(IOEnv.TRACE_FILE)
VARIABLE i
SetOf(s) == {s[k] : k \in 1..Len(s)}
\* (constants of an instance cannot depend on the event: the sets of readers and writers are passed as arguments)
Abs == INSTANCE RWLockAbs WITH Readers <- {}, Writers <- {}, rd <- {}, wr <- {}

Verdict(ev) ==
    LET r1 == SetOf(ev.rd1)  w1 == SetOf(ev.wr1)  r2 == SetOf(ev.rd2)  w2 == SetOf(ev.wr2) IN
    IF ev.op = "deadlock" THEN "deadlock"
    ELSE IF ev.op = "exception" THEN "exception"
    ELSE IF ev.op = "overlap" THEN (IF ev.nr >= 2 /\ ev.n < 2 THEN "readers-never-share" ELSE "ok")
    ELSE IF ev.op \notin {"acquire_r", "release_r", "acquire_w", "release_w"} THEN "bad-event"
    ELSE IF ~Abs!MutexOf(r2, w2) THEN "mutex"
    ELSE IF ~Abs!StepOKIn(1..ev.nr, (ev.nr + 1)..(ev.nr + ev.nw), ev.op, ev.t, r1, w1, r2, w2) THEN "mutex"
    ELSE "ok"

Init == i = 1
Next == /\ i <= Len(Trace)
        /\ LET v == Verdict(Trace[i]) IN IF v = "ok" THEN TRUE ELSE PrintT(<<"REJ", Trace[i].tid, v, "">>)
        /\ i' = i + 1
        /\ IF i = Len(Trace) THEN PrintT(<<"DONE", i>>) ELSE TRUE
=============================================================================
