----------------------------- MODULE MC_AcceptSet -----------------------------
(* C05 on the abstract instance: files written by the lenient serialiser from descriptors with up to MaxDev field
   deviations (MACs recomputed over the bytes written), all combinations.
     NominalAccepted          no deviation  => accepted, content = the descriptor's fields
     SingleDeviationRejected  exactly one   => rejected        (each structural rule is enforced on its own)
     Canonical                accepted      => the file IS the canonical serialisation of the returned content
                                               (the reader accepts exactly the image of the documented layout,
                                                e.g. a longer stored length + a trailing zero cell is simply another
                                                well-formed file whose payload ends in that zero)
   A step applies one more deviation, so all workers are used. *)
EXTENDS Bf3Abstract, TLC
CONSTANTS MaxDev, MaxEnts
VARIABLES d, key
vars == <<d, key>>
Comps == { [desc |-> <<>>, blob |-> <<ICell(1)>>, alen |-> 1, enc |-> FALSE],
           [desc |-> << <<1, <<ICell(7)>> >> >>, blob |-> <<ICell(1), ICell(0)>>, alen |-> 2, enc |-> FALSE],
           [desc |-> << <<1, <<>> >>, <<3, <<ICell(7), ICell(0)>> >> >>, blob |-> <<ICell(0), ICell(1), ICell(0)>>, alen |-> 2, enc |-> FALSE],
           [desc |-> << <<2, <<ICell(2)>> >> >>, blob |-> <<ICell(1), ICell(0)>>, alen |-> 2, enc |-> TRUE] }
Nominal(cs) == [ents |-> SubSeq([j \in 1..Len(cs) |-> L!NominalEntry(cs[j])], 1, Len(cs)), dirD |-> 0, sentinel |-> "present",
                trailing |-> <<>>, swap |-> FALSE]
Init == /\ key \in {0, 1}
        /\ \E n \in 0..MaxEnts : \E cs \in [1..n -> Comps] : d = Nominal(cs)
StoredLen(e) == Len(L!Raw(e.c, key))
EntryEdits(e) ==
    {[e EXCEPT !.lenD = x] : x \in IF e.lenD = 0 THEN {0 - 1, 1} ELSE {}}
    \cup {[e EXCEPT !.adrD = x] : x \in IF e.adrD = 0 THEN {0 - 1, 1} ELSE {}}
    \cup {[e EXCEPT !.totD = x] : x \in IF e.totD = 0 THEN {0 - 1, 1} ELSE {}}
    \cup {[e EXCEPT !.declared = x] : x \in IF e.declared = e.c.alen THEN {StoredLen(e) + 1, StoredLen(e) + 2} ELSE {}}
    \cup {[e EXCEPT !.dlenD = x] : x \in IF e.dlenD = 0 THEN (IF Len(e.c.desc) > 0 THEN {0 - 1, 1} ELSE {1}) ELSE {}}
    \cup (IF ~e.dup /\ Len(e.c.desc) > 0 THEN {[e EXCEPT !.dup = TRUE]} ELSE {})
    \cup (IF e.tlenD = 0 /\ Len(e.c.desc) > 0
          THEN {[e EXCEPT !.tlenD = 1]} \cup (IF Len(e.c.desc[Len(e.c.desc)][2]) > 0 THEN {[e EXCEPT !.tlenD = 0 - 1]} ELSE {}) ELSE {})
    \cup {[e EXCEPT !.stray = x] : x \in IF e.stray = <<>> THEN {<<ICell(0)>>, <<ICell(5), ICell(0)>>} ELSE {}}
    \cup {[e EXCEPT !.emac = x] : x \in IF e.emac = "valid" THEN {"idx-1", "idx+1", "otherkey", "garbage"} ELSE {}}
    \cup {[e EXCEPT !.pmac = x] : x \in IF e.pmac = "valid" THEN {"otherkey", "garbage"} ELSE {}}
Edit == /\ L!Deviations(d) < MaxDev
        /\ \/ \E j \in 1..Len(d.ents) : \E e2 \in EntryEdits(d.ents[j]) : d' = [d EXCEPT !.ents[j] = e2]
           \/ d.dirD = 0 /\ \E x \in {0 - 1, 1} : d' = [d EXCEPT !.dirD = x]
           \/ d.sentinel = "present" /\ \E x \in {"absent", "nonzero"} : d' = [d EXCEPT !.sentinel = x]
           \/ d.trailing = <<>> /\ \E x \in {<<ICell(0)>>, <<ICell(1)>>, <<ICell(0), ICell(0)>>} : d' = [d EXCEPT !.trailing = x]
           \/ ~d.swap /\ Len(d.ents) = 2 /\ d' = [d EXCEPT !.swap = TRUE]
        /\ UNCHANGED key
Next == Edit
Spec == Init /\ [][Next]_vars

File == <<SigCell>> \o L!SerializeRaw(d, 1, key)
P == ReadFile(File, key, TRUE)
Fields == SubSeq([j \in 1..Len(d.ents) |-> d.ents[j].c], 1, Len(d.ents))
SameC(a, b) == Len(a) = Len(b) /\ \A j \in 1..Len(a) :
      /\ a[j].desc = b[j].desc /\ a[j].alen = b[j].alen /\ a[j].enc = b[j].enc
      /\ IF a[j].enc THEN Len(b[j].blob) >= b[j].alen /\ SubSeq(a[j].blob, 1, a[j].alen) = SubSeq(b[j].blob, 1, b[j].alen) ELSE a[j].blob = b[j].blob
NominalAccepted == L!Deviations(d) = 0 => (P.ok /\ SameC(Fields, P.comps))
SingleDeviationRejected == L!Deviations(d) = 1 => ~P.ok
Canonical == P.ok => File = WriteFile(P.comps, key)
\* with the MAC check disabled the single-deviation rule is false for the MAC deviations (non-vacuity of the MAC clauses)
PU == ReadFile(File, key, FALSE)
SingleDeviationRejectedUnchecked == L!Deviations(d) = 1 => ~PU.ok
=============================================================================
