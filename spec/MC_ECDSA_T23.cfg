\* generated from harness/eclib.py TINY (the checks write the same text into their scratch directory); standalone run:
\*   java -XX:+UseSerialGC -cp /opt/veriftools/tla/tla2tools.jar:/opt/veriftools/tla/CommunityModules-deps.jar tlc2.TLC -deadlock -config MC_ECDSA_T23.cfg MC_ECDSA.tla
INIT Init
NEXT Next
CONSTANTS P=23 A=20 B=15 GX=1 GY=6 N=17 H=1
INVARIANT SignVerifies
INVARIANT SignReduces
INVARIANT ExactAccept
INVARIANT RangeReject
INVARIANT InfUnique
