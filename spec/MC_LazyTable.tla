--------------------------- MODULE MC_LazyTable ---------------------------
(* Bounded instance of LazyTable: every interleaving of the builder's statements with
   complete reader operations, table length N (cfg).  With EARLY_PUBLISH or SPLIT_ASSIGN
   set to TRUE TLC must refute the invariants (self-test of the check). *)
EXTENDS LazyTable
=============================================================================
