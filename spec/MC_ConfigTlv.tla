---------------------------- MODULE MC_ConfigTlv ----------------------------
(* Abstract instance of ConfigTlv: a content of n > 0 bytes is one token cell of size n (symbolic: length + id).
   States: entry sequences of length <= MaxN; kinds {set, delv, delk}, content lengths from Lens, key in
   {same as previous, next}; the i-th entry has value id i (so (key, vid) pairs differ) and content id i.
   Invariants: the merge algorithm (PART 2) satisfies the declarative validity (PART 1) on every state. *)
EXTENDS Naturals, Sequences, FiniteSets, TLC
CONSTANTS MaxN, Lens, EMPTY_FIRST_BLOCK, FF_PAST_255, EMIT
ACell(x) == [k |-> "i", v |-> x, n |-> 1]
AVal(c)  == IF c.k = "i" THEN c.v ELSE 9999
ACEnc(c) == IF c.len = 0 THEN <<>> ELSE <<[k |-> "c", v |-> c.id, n |-> c.len]>>
ACLen(c) == c.len
RECURSIVE ASizeFrom(_, _)
ASizeFrom(cs, i) == IF i > Len(cs) THEN 0 ELSE cs[i].n + ASizeFrom(cs, i + 1)
ASize(cs) == ASizeFrom(cs, 1)
RECURSIVE AWalk(_, _, _, _)
AWalk(cs, p0, p, left) == IF left = 0 THEN [ok |-> TRUE, got |-> SubSeq(cs, p0, p - 1), next |-> p]
                          ELSE IF p > Len(cs) \/ cs[p].n > left THEN [ok |-> FALSE, got |-> <<>>, next |-> p]
                          ELSE AWalk(cs, p0, p + 1, left - cs[p].n)
ATake(cs, p, n) == AWalk(cs, p, p, n)
ANo == [len |-> 0, id |-> 0]
ATakeContent(cs, p, n) ==
    IF n = 0 THEN [ok |-> TRUE, got |-> ANo, next |-> p]
    ELSE IF p <= Len(cs) /\ cs[p].k = "c" /\ cs[p].n = n THEN [ok |-> TRUE, got |-> [len |-> n, id |-> cs[p].v], next |-> p + 1]
    ELSE [ok |-> FALSE, got |-> ANo, next |-> p]
C == INSTANCE ConfigTlv WITH Cell <- ACell, Val <- AVal, CEnc <- ACEnc, CLen <- ACLen, Size <- ASize,
        Take <- ATake, TakeContent <- ATakeContent, NoContent <- ANo

VARIABLE es            \* sequence of [k |-> "set"|"delv"|"delk", l |-> length, s |-> same key as previous]
KeyIdx(i) == Cardinality({j \in 1..i : ~es[j].s})                      \* 1, 2, .. (the first entry has s = FALSE)
EntryOf(i) == [kind |-> es[i].k, key |-> 256 + KeyIdx(i), vid |-> IF es[i].k = "delk" THEN 255 ELSE i,
               content |-> IF es[i].k = "set" /\ es[i].l > 0 THEN [len |-> es[i].l, id |-> i] ELSE ANo]
D == {EntryOf(i) : i \in 1..Len(es)}
GroupHasDelk(q) == \E j \in 1..Len(q) : q[j].k = "delk" /\ \A m \in (j + 1)..Len(q) : q[m].s
Choices == {[k |-> "set", l |-> n, s |-> b] : n \in Lens, b \in BOOLEAN}
           \cup {[k |-> kd, l |-> 0, s |-> b] : kd \in {"delv", "delk"}, b \in BOOLEAN}
Init == es = <<>>
Next == /\ Len(es) < MaxN
        /\ \E c \in Choices :
              /\ (Len(es) = 0 => ~c.s)
              /\ (c.s => (c.k # "delk" /\ ~GroupHasDelk(es)))          \* delete-key never shares its key
              /\ es' = Append(es, c)

Blocks == C!Merge(C!Ops(D))
Extras == { <<>>, << <<ACell(9)>> >>, << <<ACell(1), ACell(0), ACell(0)>>, <<ACell(255)>> >> }
OpsSorted == C!WellFormedDict(D) /\ C!IsOps(C!Ops(D), D)
Refines == C!Representable(D) =>
             /\ C!BlocksVerdict(Blocks, D) = "ok"
             /\ \A x \in Extras : C!BlobVerdict(C!Frame(Blocks \o x), D, x) = "ok"
\* an entry of more than 255 bytes cannot be framed at all: the code's len.to_bytes(1) raises
Unframable == ~C!Representable(D) => ~C!Framable(Blocks)
\* vacuity guards, each must be VIOLATED (the boundary is reached)
NeverExactly117 == \A i \in DOMAIN Blocks : ASize(Blocks[i]) # 117
NeverTwoBlocks == Len(Blocks) < 3
NeverOversize == C!AllFit(D)
\* S->C: emit every explored case once
Code(e) == <<IF e.k = "set" THEN 0 ELSE IF e.k = "delv" THEN 1 ELSE 2, e.l, IF e.s THEN 1 ELSE 0>>
Emit == IF EMIT /\ Len(es) > 0 THEN PrintT(<<"E", [i \in 1..Len(es) |-> Code(es[i])]>>) ELSE TRUE
=============================================================================
