------------------------------ MODULE CRC16 ------------------------------
(* CRC-16/MCRF4XX: reflected polynomial 0x8408 (x^16+x^12+x^5+1), no final XOR.
   Three forms of the one-byte update step:
     StepBit    the bit-serial definition (the specification of C15),
     StepTab    the byte-table form (table defined from StepBit),
     StepShift  the three-shift form the library uses (bec2file.crc8404B).
   MC_CRC16 checks that they coincide on all 2^16 x 2^8 arguments; the fold
   over a byte string is then the same for all forms by induction. *)
EXTENDS Naturals, Sequences, Bitwise
LOCAL INSTANCE SequencesExt          \* only FoldLeft is used; LOCAL keeps its other names (Inverse, ...) out of extending modules

POLY == 33800      \* 0x8408

Shift1(c) == IF c % 2 = 1 THEN (c \div 2) ^^ POLY ELSE c \div 2
Shift8(c) == LET c1 == Shift1(c)  c2 == Shift1(c1) c3 == Shift1(c2) c4 == Shift1(c3)
                 c5 == Shift1(c4) c6 == Shift1(c5) c7 == Shift1(c6)
             IN  Shift1(c7)

StepBit(s, b) == Shift8(s ^^ b)          \* b \in 0..255 is xored into the low byte

TabEntry(x) == Shift8(x)
StepTab(s, b) == (s \div 256) ^^ TabEntry((s % 256) ^^ b)

StepShift(s, b) ==
    LET b1 == b ^^ (s % 256)
        b2 == b1 ^^ ((b1 * 16) % 256)
    IN  ((s \div 256) ^^ (b2 * 256)) ^^ ((b2 * 8) ^^ (b2 \div 16))

\* fold of the step over the byte string (FoldLeft is evaluated iteratively by TLC: no recursion depth limit)
Crc(data, start) == FoldLeft(LAMBDA s, b : StepBit(s, b), start, data)
CrcDefault(data) == Crc(data, 65535)
CrcBytes(data) == LET c == CrcDefault(data) IN <<c \div 256, c % 256>>   \* big-endian, as stored in auth blocks
=============================================================================
