--------------------------- MODULE Trace_ConfigTlv ---------------------------
(* C10, both conformance directions end here: the bytes produced by the REAL conf_dict_to_tlv / Bf3File.set_config
   are judged by the declarative part of ConfigTlv on the concrete instance (cells = bytes).
     tlv     dict, k ("ok"|"raise"), cls, blocks                       conf_dict_to_tlv(dict)
     setcfg  dict, extra, k, cls, desc, blob, alen, enc                component appended by set_config(dict, extra)
   dict: sequence (insertion order) of [kind, key, vid, content]; delete-key has vid 255; no content = <<>>. *)
EXTENDS Naturals, Sequences, FiniteSets, Json, IOUtils, TLC
CCell(n) == n
CVal(c) == c
CCEnc(c) == c
CCLen(c) == Len(c)
CSize(cs) == Len(cs)
CTake(cs, p, n) == IF p + n - 1 <= Len(cs) THEN [ok |-> TRUE, got |-> SubSeq(cs, p, p + n - 1), next |-> p + n]
                   ELSE [ok |-> FALSE, got |-> <<>>, next |-> p]
C == INSTANCE ConfigTlv WITH Cell <- CCell, Val <- CVal, CEnc <- CCEnc, CLen <- CCLen, Size <- CSize,
        Take <- CTake, TakeContent <- CTake, NoContent <- <<>>, EMPTY_FIRST_BLOCK <- FALSE, FF_PAST_255 <- FALSE
Trace == ndJsonDeserialize(IOEnv.TRACE_FILE)
VARIABLE i

DictOf(ev) == {ev.dict[j] : j \in DOMAIN ev.dict}
InDomain(ev) == Cardinality(DictOf(ev)) = Len(ev.dict) /\ C!WellFormedDict(DictOf(ev))
TlvVerdict(ev) ==
    IF ~InDomain(ev) THEN "input-out-of-domain"
    ELSE IF ev.k # "ok" THEN "raised"
    ELSE C!BlocksVerdict(ev.blocks, DictOf(ev))
SetCfgVerdict(ev) ==
    LET d == DictOf(ev) IN
    IF ~InDomain(ev) \/ \E j \in DOMAIN ev.extra : Len(ev.extra[j]) \notin 1..255 THEN "input-out-of-domain"
    ELSE IF ev.k # "ok" THEN (IF ~C!Representable(d) THEN "raised-entry-over-255" ELSE "raised")
    ELSE LET v == C!BlobVerdict(ev.blob, d, ev.extra) IN
         IF v # "ok" THEN v
         ELSE IF Len(ev.desc) # 4 \/ C!Range(ev.desc) # C!ConfigTags THEN "component-tags"
         ELSE IF ev.enc # 1 THEN "not-marked-encrypted"
         ELSE IF ev.alen # Len(ev.blob) THEN "declared-length"
         ELSE "ok"
Verdict(ev) == IF ev.op = "tlv" THEN TlvVerdict(ev) ELSE IF ev.op = "setcfg" THEN SetCfgVerdict(ev) ELSE "unknown-op"

Init == i = 1
Next == /\ i <= Len(Trace)
        /\ LET v == Verdict(Trace[i]) IN IF v = "ok" THEN TRUE ELSE PrintT(<<"REJ", Trace[i].tid, v, "">>)
        /\ i' = i + 1
        /\ IF i = Len(Trace) THEN PrintT(<<"DONE", i>>) ELSE TRUE
=============================================================================
