----------------------------- MODULE Trace_Adapter -----------------------------
(* C->S for bec2format.crypto.create_AES128(key, iv) with the registered plug-in, bec2format.crypto.pad and the
   unregistered base class.  Every event is judged by the PURE functions of Adapter (concrete instance); the events
   come from interleaved histories on shared and separate objects, so a result that depended on an earlier call
   would differ from the pure function.  iv = [] stands for None.
     ad.call  key, iv, fn, data, out, err     fn in encrypt / decrypt / mac:  out = Pure(fn, key, iv, data), no exception
     ad.rt    key, iv, data, enc, dec         dec = decrypt(enc), enc = encrypt(data):  enc = AdEncrypt, dec = ZeroPad(data) exactly
     pad      data, out                       bec2format.crypto.pad(data) = ZeroPad(data)
     unreg    what, cls                       base class method raises NotImplementedError *)
EXTENDS AES, Json, IOUtils, TLC
A == INSTANCE Adapter WITH BLK <- 16, CM <- 256, E <- EncBlockRK, D <- DecBlockRK, ADAPTER_STRIPS <- FALSE, STATEFUL_IV <- FALSE
Trace == ndJsonDeserialize(IOEnv.TRACE_FILE)
VARIABLE i
\* long inputs (the multi-thread histories use 200..2000 bytes): the same functions written as folds in AES.tla (linear in TLC;
\* MC_AESVectors / MC_AESModesVectors compare the formulations on the NIST vectors)
IvOf(iv) == IF iv = <<>> THEN Zero16 ELSE iv
Want(fn, key, iv, d) ==
    IF Len(d) <= 64 THEN A!Pure(fn, RoundKeys(key), iv, d)
    ELSE IF fn = "encrypt" THEN CbcEnc(key, IvOf(iv), ZeroPad(d))
    ELSE IF fn = "decrypt" THEN CbcDec(key, IvOf(iv), d)
    ELSE CbcMac(key, IvOf(iv), d)
ArgsOk(ev) == Len(ev.key) = 16 /\ Len(ev.iv) \in {0, 16} /\ Len(ev.data) >= 1
Verdict(ev) ==
    IF ev.op = "ad.call" THEN
        IF ~ArgsOk(ev) \/ ev.fn \notin {"encrypt", "decrypt", "mac"} \/ (ev.fn = "decrypt" /\ Len(ev.data) % 16 # 0) THEN "bad-event"
        ELSE IF ev.err # 0 THEN "adapter-raised"
        ELSE LET want == Want(ev.fn, ev.key, ev.iv, ev.data) IN
             IF ev.out = want THEN (IF ev.alias # 0 THEN "result-object-shared-between-calls" ELSE "ok")
             ELSE IF ev.fn = "decrypt" /\ ev.out = A!StripZeros(want, Len(want)) THEN "decrypt-strips-trailing-zeros"
             ELSE "adapter-" \o ev.fn \o "-differs-from-pure-function"
    ELSE IF ev.op = "ad.rt" THEN
        IF ~ArgsOk(ev) THEN "bad-event"
        ELSE IF ev.enc # A!AdEncrypt(RoundKeys(ev.key), ev.iv, ev.data) THEN "adapter-encrypt-differs-from-pure-function"
        ELSE IF ev.dec # ZeroPad(ev.data) THEN
             (IF ev.dec = A!StripZeros(ZeroPad(ev.data), Len(ZeroPad(ev.data))) THEN "decrypt-strips-trailing-zeros" ELSE "roundtrip-not-zero-padded-data")
        ELSE IF Len(ev.dec) # Len(ev.enc) THEN "roundtrip-length"
        ELSE "ok"
    ELSE IF ev.op = "pad" THEN (IF ev.out = ZeroPad(ev.data) /\ ev.out = A!ZeroPadTo(ev.data) THEN "ok" ELSE "pad-not-zero-padding")
    ELSE IF ev.op = "unreg" THEN (IF ev.cls = "NotImplementedError" THEN "ok" ELSE "base-class-" \o ev.what)
    ELSE "unknown-op"
Init == i = 1
Next == /\ i <= Len(Trace)
        /\ LET v == Verdict(Trace[i]) IN IF v = "ok" THEN TRUE ELSE PrintT(<<"REJ", Trace[i].tid, v, "">>)
        /\ i' = i + 1
        /\ IF i = Len(Trace) THEN PrintT(<<"DONE", i>>) ELSE TRUE
=============================================================================
