-------------------------------- MODULE Text --------------------------------
(* The text envelope of BF3/BEC2 files on character codes: 'key: value' comment lines, one blank
   line, upper-case hex in lines of 40 bytes; the reader's comment loop and hex2bin's cleaning
   rule; CRLF translation of path I/O. *)
EXTENDS Naturals, Sequences
Mat_(f, n) == SubSeq(f, 1, n)
NLc == 10
HexDigit(v) == IF v < 10 THEN 48 + v ELSE 55 + v
HexVal(c) == IF c \in 48..57 THEN c - 48 ELSE IF c \in 65..70 THEN c - 55 ELSE IF c \in 97..102 THEN c - 87 ELSE 99
\* Python's str.isspace / regex \s on str
IsSpace(c) == c \in 9..13 \/ c \in 28..32 \/ c = 133 \/ c = 160 \/ c = 5760 \/ c \in 8192..8202
              \/ c = 8232 \/ c = 8233 \/ c = 8239 \/ c = 8287 \/ c = 12288
IsSeparator(c) == IsSpace(c) \/ c \in 44..47 \/ c = 58         \* hex2bin removes [\s,-/:]

\* ---- writer
HexOf(bin, a, b) == Mat_([i \in 1..(2 * (b - a + 1)) |->
                          LET byte == bin[a + (i - 1) \div 2] IN
                          IF i % 2 = 1 THEN HexDigit(byte \div 16) ELSE HexDigit(byte % 16)], 2 * (b - a + 1))
RECURSIVE HexLinesFrom(_, _)
HexLinesFrom(bin, a) == IF a > Len(bin) THEN <<>>                 \* (reference formulation: quadratic in TLC on long inputs)
                        ELSE LET b == IF a + 39 < Len(bin) THEN a + 39 ELSE Len(bin)
                             IN HexOf(bin, a, b) \o <<NLc>> \o HexLinesFrom(bin, b + 1)
\* the same text character by character: line q (0-based) holds bytes 40q+1 .. 40q+40, 80 digits and a line feed (the last line
\* is shorter); equal to HexLinesFrom(bin, 1) - checked in MC_Text for every length 0..MaxBin
HexLines(bin) ==
    LET n == Len(bin)  nl == (n + 39) \div 40  total == 2 * n + nl IN
    Mat_([k \in 1..total |->
            LET q == (k - 1) \div 81  c == (k - 1) % 81
                inline == IF q = nl - 1 THEN 2 * (n - 40 * q) ELSE 80
                byte == bin[40 * q + (c \div 2) + 1]
            IN  IF c = inline THEN NLc ELSE IF c % 2 = 0 THEN HexDigit(byte \div 16) ELSE HexDigit(byte % 16)], total)
RECURSIVE CommentLinesFrom(_, _)
CommentLinesFrom(cm, i) == IF i > Len(cm) THEN <<>>
                           ELSE cm[i][1] \o <<58, 32>> \o cm[i][2] \o <<NLc>> \o CommentLinesFrom(cm, i + 1)
\* canonical text; the writer may add one empty line at the end (it does unless Len(bin) % 40 = 1)
WriteText(cm, bin) == CommentLinesFrom(cm, 1) \o <<NLc>> \o HexLines(bin)
TextMatches(t, cm, bin) == LET w == WriteText(cm, bin) IN t = w \/ t = w \o <<NLc>>
Upper80(t, from) == \A i \in from..Len(t) : ~(t[i] \in 97..102)     \* no lower-case hex digits
ToDisk(t) == LET nls == SelectSeq(Mat_([i \in 1..Len(t) |-> i], Len(t)), LAMBDA i : t[i] = NLc)
                 RECURSIVE Go(_, _)
                 Go(j, start) == IF j > Len(nls) THEN SubSeq(t, start, Len(t))
                                 ELSE SubSeq(t, start, nls[j] - 1) \o <<13, 10>> \o Go(j + 1, nls[j] + 1)
             IN Go(1, 1)
\* universal newlines on reading: CR LF -> LF, lone CR -> LF
FromDisk(d) == LET keep == SelectSeq(Mat_([i \in 1..Len(d) |-> i], Len(d)),
                                     LAMBDA i : ~(d[i] = 10 /\ i > 1 /\ d[i - 1] = 13))
               IN  Mat_([j \in 1..Len(keep) |-> IF d[keep[j]] = 13 THEN 10 ELSE d[keep[j]]], Len(keep))

\* ---- reader: [ok, err, comments, bin]
TErr(e) == [ok |-> FALSE, err |-> e, comments |-> <<>>, bin |-> <<>>]
RECURSIVE LStrip(_, _)
LStrip(s, i) == IF i <= Len(s) /\ IsSpace(s[i]) THEN LStrip(s, i + 1) ELSE i
RECURSIVE RStrip(_, _)
RStrip(s, j) == IF j >= 1 /\ IsSpace(s[j]) THEN RStrip(s, j - 1) ELSE j
Strip(s) == LET a == LStrip(s, 1)  b == RStrip(s, Len(s)) IN IF a > b THEN <<>> ELSE SubSeq(s, a, b)
\* dict update keeping first-insertion order
PutComment(acc, k, v) == IF \E j \in 1..Len(acc) : acc[j][1] = k
                         THEN Mat_([j \in 1..Len(acc) |-> IF acc[j][1] = k THEN <<k, v>> ELSE acc[j]], Len(acc))
                         ELSE Append(acc, <<k, v>>)
FirstColon(line) == IF \E i \in 1..Len(line) : line[i] = 58
                    THEN CHOOSE i \in 1..Len(line) : line[i] = 58 /\ \A r \in 1..(i - 1) : line[r] # 58 ELSE 0
HexDecode(rest) ==
    LET c0 == SelectSeq(rest, LAMBDA c : ~IsSeparator(c))
        n0 == Len(c0)
        c1 == IF n0 % 2 = 1 THEN SubSeq(c0, 1, n0 - 1) \o <<48, c0[n0]>> ELSE c0
        n  == Len(c1) \div 2
    IN  IF \E i \in 1..Len(c1) : HexVal(c1[i]) > 15 THEN TErr("not-hex")
        ELSE [ok |-> TRUE, err |-> "", comments |-> <<>>,
              bin |-> Mat_([i \in 1..n |-> 16 * HexVal(c1[2 * i - 1]) + HexVal(c1[2 * i])], n)]
ReadText(t) ==
    LET nls == SelectSeq(Mat_([i \in 1..Len(t) |-> i], Len(t)), LAMBDA i : t[i] = NLc)
        RECURSIVE Go(_, _, _)
        Go(j, start, acc) ==      \* next line starts at `start`; j-th newline ends it
            IF j > Len(nls) THEN TErr("no-blank-line")
            ELSE IF nls[j] = start THEN
                     LET h == HexDecode(SubSeq(t, start + 1, Len(t))) IN
                     IF h.ok THEN [ok |-> TRUE, err |-> "", comments |-> acc, bin |-> h.bin] ELSE h
            ELSE LET line == SubSeq(t, start, nls[j] - 1)  c == FirstColon(line) IN
                 IF c = 0 THEN TErr("comment-without-colon")
                 ELSE Go(j + 1, nls[j] + 1, PutComment(acc, SubSeq(line, 1, c - 1), Strip(SubSeq(line, c + 1, Len(line)))))
    IN  Go(1, 1, <<>>)
=============================================================================
