------------------------------- MODULE Adapter -------------------------------
(* The registered AES-128 plug-in (appnotes/register_crypto_plugin AES128Proxy) behind
   bec2format.crypto.create_AES128(key, iv).

   Specification - PURE functions of (key, iv, data); iv = <<>> stands for None and means the all-zero IV:
     AdEncrypt(k, iv, d) = CBC-encrypt(k, iv or 0, d zero-padded to whole blocks)          Len(d) >= 1
     AdDecrypt(k, iv, c) = CBC-decrypt(k, iv or 0, c), the FULL zero-padded plain text       Len(c) = n*BLK, n >= 1
     AdMac(k, iv, d)     = last block of AdEncrypt(k, iv, d)
   Implementation model - what the plug-in does on every call: a NEW CBC mode object from (key, iv), a
   feeder with padding "none", feed(padded data), feed(None).  The object keeps only (key, iv).
   MC_Adapter: over all call histories on two objects the implementation model returns the pure functions.

   Deviation switches (both FALSE describe the code in /repo; each TRUE must be refuted by TLC):
     ADAPTER_STRIPS  decrypt strips trailing zero cells from the plain text (was a real defect, fixed)
     STATEFUL_IV     the object keeps its mode object, so a call continues the chain of the previous one *)
EXTENDS Feeder
CONSTANTS ADAPTER_STRIPS, STATEFUL_IV

ZeroPadTo(d) == d \o Zeros((BLK - (Len(d) % BLK)) % BLK)
IvEff(iv)    == IF iv = <<>> THEN Zeros(BLK) ELSE iv
RECURSIVE StripZeros(_, _)
StripZeros(d, n) == IF n > 0 /\ d[n] = 0 THEN StripZeros(d, n - 1) ELSE Take(d, n)

AdEncrypt(k, iv, d) == CbcEncW(k, IvEff(iv), ZeroPadTo(d))
AdDecrypt(k, iv, c) == CbcDecW(k, IvEff(iv), c)
AdMac(k, iv, d)     == LET c == AdEncrypt(k, iv, d) IN Drop(c, Len(c) - BLK)
Pure(op, k, iv, d)  == IF op = "encrypt" THEN AdEncrypt(k, iv, d) ELSE IF op = "decrypt" THEN AdDecrypt(k, iv, d) ELSE AdMac(k, iv, d)

\* ---- implementation model
CbcCfg(k, iv) == [mode |-> "cbc", k |-> k, iv |-> IvEff(iv), seg |-> 0]
NewObj(k, iv) == [k |-> k, iv |-> iv, ms |-> NewMode(CbcCfg(k, iv))]
Through(o, dir, data) ==          \* feeder.feed(data) + feeder.feed()
    LET ms0 == IF STATEFUL_IV THEN o.ms ELSE NewMode(CbcCfg(o.k, o.iv))
        r1  == Feed(NewFeeder(ms0, dir, "none"), data)
        r2  == Final(r1.f)
    IN  [o |-> IF STATEFUL_IV THEN [o EXCEPT !.ms = r2.f.ms] ELSE o, out |-> r1.out \o r2.out, err |-> r2.err]
ImplEncrypt(o, d) == Through(o, "enc", ZeroPadTo(d))
ImplDecrypt(o, c) == LET r == Through(o, "dec", c) IN IF ADAPTER_STRIPS THEN [r EXCEPT !.out = StripZeros(r.out, Len(r.out))] ELSE r
ImplMac(o, d)     == LET r == ImplEncrypt(o, d) IN [r EXCEPT !.out = Drop(r.out, Len(r.out) - BLK)]
Impl(op, o, d)    == IF op = "encrypt" THEN ImplEncrypt(o, d) ELSE IF op = "decrypt" THEN ImplDecrypt(o, d) ELSE ImplMac(o, d)
=============================================================================
