\* generated from harness/eclib.py TINY (the checks write the same text into their scratch directory); standalone run:
\*   java -XX:+UseSerialGC -cp /opt/veriftools/tla/tla2tools.jar:/opt/veriftools/tla/CommunityModules-deps.jar tlc2.TLC -deadlock -config MC_ECGroup_TH2.cfg MC_ECGroup.tla
INIT Init
NEXT Next
CONSTANTS P=11 A=1 B=1 GX=0 GY=1 N=7 H=2
INVARIANT Closure
INVARIANT Commut
INVARIANT Ident
INVARIANT Inverse
INVARIANT Assoc
INVARIANT MulIsRep
INVARIANT MulHom
INVARIANT MulDistr
INVARIANT MulAddDef
INVARIANT OrderDiv
INVARIANT Jacobian
