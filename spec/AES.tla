-------------------------------- MODULE AES --------------------------------
(* FIPS-197 AES (Nk = 4, 6, 8) on byte tuples, written from the standard's pseudo code
   (Cipher, InvCipher - the straightforward inverse, not the table-driven equivalent
   inverse the bundled pyaes uses - and KeyExpansion), plus zero-IV/any-IV CBC on whole
   blocks, zero padding and the CBC-MAC the container uses (last cipher block). *)
EXTENDS AESRounds, Sequences

Zero16 == <<0,0,0,0, 0,0,0,0, 0,0,0,0, 0,0,0,0>>
Xor16(a, b) == AddRoundKey(a, b)

\* ---- key expansion (FIPS-197 5.2); words are 4-tuples
SubWord(w) == <<SBox[w[1] + 1], SBox[w[2] + 1], SBox[w[3] + 1], SBox[w[4] + 1]>>
RotWord(w) == <<w[2], w[3], w[4], w[1]>>
XorWord(a, b) == <<a[1] ^^ b[1], a[2] ^^ b[2], a[3] ^^ b[3], a[4] ^^ b[4]>>
RECURSIVE ExpandFrom(_, _, _)
ExpandFrom(ws, nk, total) ==     \* ws: words 0..i-1 as sequence (1-based), i = Len(ws)
    IF Len(ws) >= total THEN ws
    ELSE LET i    == Len(ws)
             prev == ws[i]
             t    == IF i % nk = 0 THEN XorWord(SubWord(RotWord(prev)), <<Rcon[i \div nk], 0, 0, 0>>)
                     ELSE IF nk > 6 /\ i % nk = 4 THEN SubWord(prev)
                     ELSE prev
         IN  ExpandFrom(Append(ws, XorWord(ws[i - nk + 1], t)), nk, total)
KeyWords(key) ==
    LET nk == Len(key) \div 4
        w0 == [j \in 1..nk |-> <<key[4*j - 3], key[4*j - 2], key[4*j - 1], key[4*j]>>]
    IN  ExpandFrom(SubSeq(w0, 1, nk), nk, 4 * (nk + 7))
\* round keys as a sequence of 16-tuples, index 1..Nr+1
RoundKeys(key) ==
    LET w  == KeyWords(key)
        nr == Len(key) \div 4 + 6
        rk == [r \in 1..(nr + 1) |-> w[4*r - 3] \o w[4*r - 2] \o w[4*r - 1] \o w[4*r]]
    IN  SubSeq(rk, 1, nr + 1)

\* ---- Cipher / InvCipher (FIPS-197 5.1, 5.3) given the round keys
RECURSIVE EncRounds(_, _, _)
EncRounds(s, rk, r) ==      \* rounds r..Nr-1 then the final round
    IF r = Len(rk) - 1 THEN AddRoundKey(ShiftRows(SubBytes(s)), rk[r + 1])
    ELSE EncRounds(AddRoundKey(MixColumns(ShiftRows(SubBytes(s))), rk[r + 1]), rk, r + 1)
EncBlockRK(rk, blk) == EncRounds(AddRoundKey(blk, rk[1]), rk, 1)
RECURSIVE DecRounds(_, _, _)
DecRounds(s, rk, r) ==      \* r counts down from Nr-1 to 1
    IF r = 0 THEN AddRoundKey(InvSubBytes(InvShiftRows(s)), rk[1])
    ELSE DecRounds(InvMixColumns(AddRoundKey(InvSubBytes(InvShiftRows(s)), rk[r + 1])), rk, r - 1)
DecBlockRK(rk, blk) == DecRounds(AddRoundKey(blk, rk[Len(rk)]), rk, Len(rk) - 2)
EncBlock(key, blk) == EncBlockRK(RoundKeys(key), blk)
DecBlock(key, blk) == DecBlockRK(RoundKeys(key), blk)

\* ---- zero padding, CBC on whole blocks, MAC
PadLen(n) == (16 - (n % 16)) % 16
ZeroPad(d) == d \o SubSeq(Zero16, 1, PadLen(Len(d)))
Block(d, i) == SubSeq(d, 16 * i - 15, 16 * i)          \* i-th 16-byte block (1-based)
\* CBC as a FOLD over the block indices (TLC evaluates FoldLeft iteratively; the recursive formulation below is kept as the
\* reference and compared with it on the test vectors - it is quadratic in TLC and overflows the stack on long inputs)
LOCAL INSTANCE SequencesExt
BlockIndices(n) == SubSeq([i \in 1..n |-> i], 1, n)
Flatten16(blocks, n) == SubSeq([j \in 1..n |-> blocks[((j - 1) \div 16) + 1][((j - 1) % 16) + 1]], 1, n)
CbcEnc(key, iv, d) ==                                                \* Len(d) multiple of 16
    LET rk == RoundKeys(key)
        nb == Len(d) \div 16
        step(st, i) == LET c == EncBlockRK(rk, Xor16(Block(d, i), st[1])) IN <<c, Append(st[2], c)>>
        fin == FoldLeft(step, <<iv, <<>>>>, BlockIndices(nb))
    IN  Flatten16(fin[2], 16 * nb)
CbcDec(key, iv, d) ==
    LET rk == RoundKeys(key)
        nb == Len(d) \div 16
        step(st, i) == LET c == Block(d, i) IN <<c, Append(st[2], Xor16(DecBlockRK(rk, c), st[1]))>>
        fin == FoldLeft(step, <<iv, <<>>>>, BlockIndices(nb))
    IN  Flatten16(fin[2], 16 * nb)
\* MAC: last block of CBC over the zero-padded data; only the chaining value is carried
CbcMac(key, iv, d) ==                                                \* d non-empty
    LET rk == RoundKeys(key)
        p == ZeroPad(d)
        step(prev, i) == EncBlockRK(rk, Xor16(Block(p, i), prev))
    IN  FoldLeft(step, iv, BlockIndices(Len(p) \div 16))
\* ---- reference formulations (recursive, as first written from the standard's description)
RECURSIVE CbcEncFrom(_, _, _, _, _)
CbcEncFrom(rk, d, i, prev, acc) ==
    IF 16 * i > Len(d) THEN acc
    ELSE LET c == EncBlockRK(rk, Xor16(Block(d, i), prev)) IN CbcEncFrom(rk, d, i + 1, c, acc \o c)
CbcEncRef(key, iv, d) == CbcEncFrom(RoundKeys(key), d, 1, iv, <<>>)
RECURSIVE CbcDecFrom(_, _, _, _, _)
CbcDecFrom(rk, d, i, prev, acc) ==
    IF 16 * i > Len(d) THEN acc
    ELSE LET c == Block(d, i) IN CbcDecFrom(rk, d, i + 1, c, acc \o Xor16(DecBlockRK(rk, c), prev))
CbcDecRef(key, iv, d) == CbcDecFrom(RoundKeys(key), d, 1, iv, <<>>)
RECURSIVE CbcMacFrom(_, _, _, _)
CbcMacFrom(rk, d, i, prev) ==
    IF 16 * i > Len(d) THEN prev ELSE CbcMacFrom(rk, d, i + 1, EncBlockRK(rk, Xor16(Block(d, i), prev)))
CbcMacRef(key, iv, d) == CbcMacFrom(RoundKeys(key), ZeroPad(d), 1, iv)
\* the entry index as a 128-bit big-endian number (indices below 2^31 here: TLC integers)
IvOfIndex(n) == <<0,0,0,0, 0,0,0,0, 0,0,0,0, (n \div 16777216) % 256, (n \div 65536) % 256, (n \div 256) % 256, n % 256>>
=============================================================================
