----------------------------- MODULE Bf3Abstract -----------------------------
(* Abstract instance of Bf3Layout: every cell is a record [k, v]:
     k = "i"  integer cell, v = <<n>>
     k = "m"  MAC token,    v = <<key, iv index, zero-padded data>>  (so data and data||zeros
              have the same MAC while the block count is equal - the real CBC-MAC's padding equivalence)
     k = "e"  cipher cell,  v = <<key, padded plaintext, position>>
     k = "g"  garbage (result of decrypting something that is not a ciphertext under that key)
   Field widths are one cell, the block size is two cells.  Tokens cannot be minted by a fault,
   only copied. *)
EXTENDS Naturals, Sequences, FiniteSets
CONSTANTS SHORT_READ_OK, ENC_NEVER_DECRYPTS, DEC_STRIPS_ZEROS
HugeA == 1000
ABLK == 2
ICell(n) == [k |-> "i", v |-> <<n>>]
AVal(c)  == IF c.k = "i" THEN c.v[1] ELSE HugeA
APadLen(n) == (ABLK - (n % ABLK)) % ABLK
APad(d) == d \o SubSeq(<<ICell(0), ICell(0)>>, 1, APadLen(Len(d)))
AMac(key, iv, d) == << [k |-> "m", v |-> <<key, iv, APad(d)>>] >>
AEnc(key, d) == SubSeq([j \in 1..Len(d) |-> [k |-> "e", v |-> <<key, d, j>>]], 1, Len(d))
IsCipherOf(key, cs) == /\ Len(cs) > 0 /\ cs[1].k = "e"
                       /\ LET d == cs[1].v[2] IN Len(d) = Len(cs) /\ \A j \in 1..Len(cs) : cs[j] = [k |-> "e", v |-> <<key, d, j>>]
RECURSIVE AStrip(_, _)
AStrip(d, n) == IF n > 0 /\ d[n] = ICell(0) THEN AStrip(d, n - 1) ELSE SubSeq(d, 1, n)
ADec(key, cs) == LET p == IF IsCipherOf(key, cs) THEN cs[1].v[2]
                          ELSE SubSeq([j \in 1..Len(cs) |-> [k |-> "g", v |-> <<key, cs, j>>]], 1, Len(cs))
                 IN IF DEC_STRIPS_ZEROS THEN AStrip(p, Len(p)) ELSE p
L == INSTANCE Bf3Layout WITH W_ADR <- 1, W_LEN <- 1, W_MAC <- 1, BLK <- ABLK, Base <- HugeA, Huge <- HugeA,
        Cell <- ICell, Val <- AVal, Mac <- AMac, Enc <- AEnc, Dec <- ADec, ENC_TAG <- 2, ENC_SESSION <- <<ICell(2)>>, KeyA <- 0, KeyB <- 1, GarbageCell <- [k |-> "g", v |-> <<0, <<>>, 0>>]
SigCell == ICell(66)
\* a whole file: one signature cell, then the container at offset 1
WriteFile(comps, key) == <<SigCell>> \o L!Serialize(comps, 1, key)
ReadFile(file, key, check) == IF Len(file) < 1 \/ file[1] # SigCell THEN L!Err("signature") ELSE L!Parse(file, 1, key, check)
=============================================================================
