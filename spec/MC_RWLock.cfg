\* quick instance; the check (harness/checks/c20.py) generates its cfgs itself
CONSTANTS R = 2  W = 2  Passes = 1
SPECIFICATION Spec
INVARIANTS TypeOK Mutex ReleaseHeld CountersOK
PROPERTIES Termination WriterPreference
CHECK_DEADLOCK TRUE
