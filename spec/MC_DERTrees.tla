----------------------------- MODULE MC_DERTrees -----------------------------
(* Bounded TLV trees, including contents long enough for the long length form.
   A tree grows by wrapping the current tree (alone or next to a leaf) into a
   constructed node (SEQUENCE, [0], [1]) up to depth D.  For every tree t:
     RoundTrip      DecodeTop(EncTree(t)) = "ok" and DecodeTree(EncTree(t)) = t
     Truncated      every proper prefix of EncTree(t) is invalid
     Extended       EncTree(t) followed by one more byte is invalid
   and the deliberately wrong decoder (ignores trailing bytes) accepts an extension
   (LenientExtended must be refuted).

   Length forms (separate behaviour, variables b0 b1): for every long-form prefix
   b0 b1 b2 (b3) and every short form: if ReadLen accepts, EncLen(value) is exactly
   the octets read (uniqueness = minimality); ReadLen(EncLen(n)) = n for n < 76 800;
   0x80 is rejected. *)
EXTENDS DER, TLC
CONSTANT D
VARIABLES t, d, b0, b1

Fill(n, v) == IF n = 0 THEN <<>> ELSE SubSeq([i \in 1..n |-> v], 1, n)
Leaf(tag, val) == [tag |-> tag, val |-> val, kids |-> <<>>]
Node(tag, kids) == [tag |-> tag, val |-> <<>>, kids |-> kids]
Leaves ==
    {Leaf(T_INT, v) : v \in {<<0>>, <<1>>, <<127>>, <<0, 128>>, <<0, 255, 1>>, <<255>>}}
    \cup {Leaf(T_OCTETS, Fill(n, 170)) : n \in {0, 1, 127, 128, 255, 256, 300}}
    \cup {Leaf(T_BITS, v) : v \in {<<0>>, <<0, 4, 1>>, <<7, 128>>}}
    \cup {Leaf(T_OID, v) : v \in {<<42, 134, 72, 206, 61, 2, 1>>, <<43, 129, 4, 0, 6>>}}
    \cup {Leaf(T_NULL, <<>>)}
    \cup {Node(tag, <<>>) : tag \in {T_SEQ, T_CTX0, T_CTX1}}
CTags == {T_SEQ, T_CTX0, T_CTX1}

InitTrees == t \in Leaves /\ d = 0 /\ b0 = 0 /\ b1 = 0
NextTrees == /\ d < D
             /\ d' = d + 1
             /\ UNCHANGED <<b0, b1>>
             /\ \E tag \in CTags :
                  \/ t' = Node(tag, <<t>>)
                  \/ \E l \in Leaves : t' = Node(tag, <<t, l>>) \/ t' = Node(tag, <<l, t>>)

Enc == EncTree(t)
RoundTrip == LET e == Enc IN DecodeTop(e) = "ok" /\ DecodeTree(e) = t
Truncated == LET e == Enc IN \A k \in 0..(Len(e) - 1) : DecodeWin(e, k) # "ok"
Extended == LET e == Enc IN \A b \in {0, 48, 255} : DecodeTop(Append(e, b)) # "ok"
LenientExtended == LET e == Enc IN \A b \in {0, 48, 255} : DecodeLenientWin(Append(e, b), Len(e) + 1) # "ok"
\* vacuity: a tree of depth D whose encoding needs a 2-octet long form exists
SomeLong == ~(d = D /\ Len(Enc) > 300)

\* ---- length forms
InitLen == b0 \in {0, 129, 130, 131, 132} /\ b1 \in 0..255 /\ t = Leaf(T_NULL, <<>>) /\ d = 0
NextLen == FALSE /\ UNCHANGED <<t, d, b0, b1>>
Unique(str) == LET r == ReadLen(str, 1, Len(str)) IN r.ok => EncLen(r.len) = SubSeq(str, 1, r.nx - 1)
LenForms ==
    /\ (b0 = 0) => /\ \A n \in (b1 * 300)..(b1 * 300 + 299) :
                         LET e == EncLen(n)  r == ReadLen(e \o <<0>>, 1, Len(e) + 1)
                         IN  r.ok /\ r.len = n /\ r.nx = Len(e) + 1
                   /\ LET r == ReadLen(<<b1>>, 1, 1) IN IF b1 < 128 THEN r.ok /\ r.len = b1 ELSE ~r.ok
                   /\ ~ReadLen(<<128, b1>>, 1, 2).ok
    /\ (b0 = 129) => /\ Unique(<<129, b1>>)
                     /\ ReadLen(<<129, b1>>, 1, 2).ok = (b1 >= 128)
                     /\ ~ReadLen(<<129, b1>>, 1, 1).ok
    /\ (b0 = 130) => \A b2 \in 0..255 : /\ Unique(<<130, b1, b2>>)
                                        /\ ReadLen(<<130, b1, b2>>, 1, 3).ok = (b1 > 0)
                                        /\ ~ReadLen(<<130, b1, b2>>, 1, 2).ok
    /\ (b0 = 131) => \A b2 \in 0..255 : \A b3 \in {0, 1, 127, 128, 255} :
                                        /\ Unique(<<131, b1, b2, b3>>)
                                        /\ ReadLen(<<131, b1, b2, b3>>, 1, 4).ok = (b1 > 0)
    /\ (b0 = 132) => \A b2 \in {0, 1, 255} : ~ReadLen(<<132, b1, b2, 0, 0>>, 1, 5).ok
=============================================================================
