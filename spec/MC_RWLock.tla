----------------------------- MODULE MC_RWLock -----------------------------
(* Bounded instances of RWLock (R, W, Passes from the cfg).  Prints the label table
   so that the harness takes the projection (label -> phase, pending lock call) from
   the specification and not from a copy. *)
EXTENDS RWLock
ASSUME PrintT(<<"INFO", Info>>)
ASSUME PrintT(<<"THREADS", Readers, Writers>>)

(* self-test variants: each must be refuted by TLC *)
\* a writer that does not take no_writers
BadWA_Excl(t) == pc[t] = "wa_nw" /\ Goto(t, "w_cs") /\ UNCHANGED <<owner, rc, wc, left>>
BadWStep(t) == \/ WA_SwitchIn(t) \/ WA_First(t) \/ WA_SwitchOut(t) \/ BadWA_Excl(t) \/ W_CS(t)
               \/ WR_ExclRel(t) \/ WR_SwitchIn(t) \/ WR_Last(t) \/ WR_SwitchOut(t)
BadNextNoExcl == (\E t \in Readers : RStep(t)) \/ (\E t \in Writers : BadWStep(t)) \/ Terminated
\* a reader that forgets to release the readers' queue lock (next reader blocks for ever)
BadRA_QueueRel(t) == pc[t] = "ra_rq_rel" /\ Goto(t, "r_cs") /\ UNCHANGED <<owner, rc, wc, left>>
BadRStep(t) == \/ RA_Queue(t) \/ RA_Gate(t) \/ RA_SwitchIn(t) \/ RA_First(t) \/ RA_SwitchOut(t)
               \/ RA_GateRel(t) \/ BadRA_QueueRel(t) \/ R_CS(t)
               \/ RR_SwitchIn(t) \/ RR_Last(t) \/ RR_SwitchOut(t)
BadNextNoQueueRel == (\E t \in Readers : BadRStep(t)) \/ (\E t \in Writers : WStep(t)) \/ Terminated
=============================================================================
