------------------------------- MODULE MC_DER -------------------------------
(* Exhaustive on all byte strings over a small alphabet up to length N (built one byte
   per step so that all workers are used):
     PrefixFree     a valid DER value has no valid proper prefix - equivalently, a valid
                    value followed by a non-empty suffix is invalid (trailing data) and
                    every truncation of a valid value is invalid;
     Canonical      re-encoding the decoded tree gives the same bytes (so every length
                    is in its minimal form, indefinite length never accepted);
     Total          the decoder returns a verdict on every string (TLC would stop with a
                    run-time error otherwise).
   Self-test: the same prefix property for a decoder that ignores trailing bytes
   (LenientPrefixFree) must be refuted. *)
EXTENDS DER, TLC
CONSTANTS N, Alpha
VARIABLE s
Init == s = <<>>
Next == Len(s) < N /\ \E b \in Alpha : s' = Append(s, b)

Valid(hi) == DecodeWin(s, hi) = "ok"
PrefixFree == Valid(Len(s)) => \A k \in 0..(Len(s) - 1) : ~Valid(k)
ExtensionInvalid == \A k \in 0..(Len(s) - 1) : Valid(k) => ~Valid(Len(s))
Canonical == Valid(Len(s)) => EncTree(DecodeTree(s)) = s
Total == DecodeWin(s, Len(s)) \in STRING
LenientPrefixFree == (DecodeLenientWin(s, Len(s)) = "ok") => \A k \in 0..(Len(s) - 1) : DecodeLenientWin(s, k) # "ok"
\* vacuity guard: valid constructed values of the maximal length exist in the instance
SomeValid == ~(Len(s) = N /\ Valid(N) /\ Constructed(s[1]))
=============================================================================
