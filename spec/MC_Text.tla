------------------------------- MODULE MC_Text -------------------------------
(* The text envelope on its own (C01, C03, C14):
     Mode "roundtrip"  ReadText(WriteText(cm, bin)) = (cm, bin), also with the optional trailing empty line and through
                       ToDisk/FromDisk (CRLF translation), for all comment maps over two keys x three values in both
                       orders and binaries of every length 0..MaxBin (crossing the 40-byte line wrap at 40/41/80/81)
     Mode "total"      ReadText is total over ALL strings up to MaxLen over an alphabet with hex digits, a non-hex letter,
                       ':', blank, newline, carriage return: the result is ok or a named error, never an evaluation error *)
EXTENDS Text, TLC, FiniteSets
CONSTANTS Mode, MaxBin, MaxLen
VARIABLES t, phase
Keys == {<<75>>, <<75, 32, 50>>, <<>>}                 \* "K", "K 2", ""
Vals == {<<>>, <<118>>, <<118, 58, 32, 119>>}         \* "", "v", "v: w"
CmMaps == {<<>>} \cup {<< <<k, v>> >> : k \in Keys, v \in Vals}
          \cup UNION {{<< <<k1, v1>>, <<k2, v2>> >> : k2 \in Keys \ {k1}, v1 \in Vals, v2 \in Vals} : k1 \in Keys}
BinOf(n) == SubSeq([j \in 1..n |-> (j * 37 + n) % 256], 1, n)
Alphabet == {52, 50, 70, 102, 103, 58, 32, 10, 13}     \* 4 2 F f g : blank LF CR
Init == IF Mode = "roundtrip" THEN t = <<>> /\ phase \in 0..MaxBin ELSE t = <<>> /\ phase = 0
Next == /\ Mode = "total" /\ Len(t) < MaxLen /\ \E c \in Alphabet : t' = Append(t, c) /\ UNCHANGED phase
RoundTrip == Mode = "roundtrip" =>
    \A cm \in CmMaps :
        LET bin == BinOf(phase)
            w   == WriteText(cm, bin)
            r1  == ReadText(w)
            r2  == ReadText(w \o <<NLc>>)
            r3  == ReadText(FromDisk(ToDisk(w)))
        IN  /\ r1.ok /\ r1.comments = cm /\ r1.bin = bin
            /\ r2.ok /\ r2.comments = cm /\ r2.bin = bin
            /\ r3.ok /\ r3.comments = cm /\ r3.bin = bin
            /\ FromDisk(ToDisk(w)) = w
            /\ \A j \in 1..Len(w) : ~(w[j] \in 97..102)                                   \* upper-case hex only
            /\ TextMatches(w, cm, bin) /\ TextMatches(w \o <<NLc>>, cm, bin)
            /\ HexLines(bin) = HexLinesFrom(bin, 1)                                        \* the direct and the recursive formulation
Total == Mode = "total" =>
    LET r == ReadText(t) IN
    /\ r.ok \in BOOLEAN
    /\ (~r.ok => r.err \in {"no-blank-line", "comment-without-colon", "not-hex"})
    /\ (r.ok => \A j \in 1..Len(r.bin) : r.bin[j] \in 0..255)
\* every line of the written text is at most 80 hex characters
LineWidth == Mode = "roundtrip" =>
    LET w == WriteText(<<>>, BinOf(phase))
        nls == SelectSeq(SubSeq([j \in 1..Len(w) |-> j], 1, Len(w)), LAMBDA j : w[j] = NLc)
    IN  \A q \in 2..Len(nls) : nls[q] - nls[q - 1] - 1 <= 80
=============================================================================
