---------------------------- MODULE MC_Bec2Header ----------------------------
(* C14 for the BEC2 framing: the header reader (signature, tag-length-value blocks, 00 00 terminator) and the whole BEC2
   reader without / with decryptors are TOTAL over arbitrary byte strings that follow the signature: for every string over a
   small byte alphabet up to MaxLen the outcome is a well-formed block list or a named rejection, never an evaluation error;
   a split header re-packs to the bytes it was read from (PackBlocks is the inverse of SplitHeader on accepted input). *)
EXTENDS Bec2Concrete, TLC
CONSTANTS MaxLen
VARIABLE tail
Alphabet == {0, 1, 2, 3, 4, 255}
Init == tail = <<>>
Next == Len(tail) < MaxLen /\ \E c \in Alphabet : tail' = Append(tail, c)
Bin == Bec2Sig \o tail
HClauses == {"signature", "header-short", "block-short"}
K0 == Zero16
Decs == << [kind |-> "cust", key |-> K0, ck |-> <<>>, pos |-> 0, code |-> <<>>, sel |-> 0, priv |-> 0],
           [kind |-> "code", key |-> K0, ck |-> <<>>, pos |-> 0, code |-> <<1,2,3,4,5,6,7,8>>, sel |-> 0, priv |-> 0],
           [kind |-> "ecc", key |-> <<>>, ck |-> <<>>, pos |-> 0, code |-> <<>>, sel |-> 0, priv |-> 1] >>
HeaderTotal ==
    LET h == SplitHeader(Bin) IN
    /\ h.ok \in BOOLEAN
    /\ (~h.ok => h.err \in HClauses)
    /\ (h.ok => /\ h.off <= Len(Bin)
                /\ SubSeq(Bin, 1, h.off) = Header(h.blocks)                   \* re-packing gives the bytes that were read
                /\ \A j \in 1..Len(h.blocks) : ~(h.blocks[j].tag = 0 /\ Len(h.blocks[j].raw) = 0))
ReaderTotal ==
    LET h  == SplitHeader(Bin)
        n  == IF h.ok THEN Len(h.blocks) ELSE 0
        ek == SubSeq([j \in 1..n |-> <<>>], 1, n)
        r0 == ReadBec2(Bin, ek, <<>>, TRUE)
        r1 == ReadBec2(Bin, ek, Decs, TRUE)
    IN  /\ ~r0.ok                                                              \* without any decryptor nothing is readable
        /\ r0.err \in HClauses \cup {"no-decryptable-block", "error:ecc-empty"}   \* (an empty ECC block is refused before any decryptor is looked up)
        /\ r1.ok \in BOOLEAN                                                   \* with decryptors: total (garbage blocks fail their containers)
\* vacuity guard: some arbitrary tail IS a well-formed header (expected to be violated)
NoHeaderAccepted == ~SplitHeader(Bin).ok
=============================================================================
