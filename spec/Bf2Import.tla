------------------------------ MODULE Bf2Import ------------------------------
(* C13: import of legacy BF2 files (Bf3File.parse_bf2_file / bf2_import / exec_bf2instrs /
   bf2_unpack_payload / bf2_convert_payload / annotations / pfid2_filter_to_str).

   A BF2 file is a sequence of ITEMS  [k, name, s, text, bytes, runs]:
     k = "cmt"  `##name: value`      name in Firmware | Creator | Bf3Update | CRC | <other>;  text = value (char codes)
     k = "ins"  `#>CMD k=v,...`      name in REBOOT | SELECT (bytes = FILTER) | CHECK_FWVER (s = "*" or "hex", bytes = VERSIONDESC)
                                     | SELECT_IF (s = PROTOCOL)
     k = "grp"  a data group: start marker (type FE), data lines, end marker (type FF); runs = the data lines
   Payload bytes are SYMBOLIC: a run <<id0, n, ty, offs, len>> stands for n data lines with ids id0..id0+n-1,
   tag type ty, each carrying len payload bytes, line j (0-based) at 16-bit offset offs + j*len.  The address of a
   line inside its section is FLAT: (ty - first tag type of the section) * PAGE + offset, and its extent address ..
   address + len - 1 may run past the end of the page the line starts in (a line that straddles a page boundary).
   Results list line ids
   ("id runs" <<id0, n>> = ids id0..id0+n-1, always normalised to maximal runs of consecutive ids).

   dev = [drop, retain] are the deviation switches (what the code does when TRUE):
     drop    DROP_FIRST_AFTER_GAP  bf2_unpack_payload does not append the first line of a new block
     retain  SKIP_RETAINS_DATA     a section skipped for an unsupported SELECT_IF protocol keeps its data lines
                                   when the skip was triggered by REBOOT / a second CHECK_FWVER               *)
EXTENDS Integers, Sequences, FiniteSets, TLC, Text
CONSTANT PAGE

Mat(f, n) == SubSeq(f, 1, n)
Min2(a, b) == IF a < b THEN a ELSE b
NoDev == [drop |-> FALSE, retain |-> FALSE]

\* ------------------------------------------------------------------ fixed strings (char codes)
S_Suffix    == <<32,43,32,98,102,50,45,116,111,45,98,102,51,45,99,111,110,118,101,114,116,101,114>> \* " + bf2-to-bf3-converter"
S_Main      == <<77,97,105,110,32,70,105,114,109,119,97,114,101>>                                   \* "Main Firmware"
S_Loader    == <<32,76,111,97,100,101,114,32,70,105,114,109,119,97,114,101>>                        \* " Loader Firmware"
S_Firmware  == <<32,70,105,114,109,119,97,114,101>>                                                 \* " Firmware"
S_Version   == <<32,86,101,114,115,105,111,110,32>>                                                 \* " Version "
S_Hwc       == <<72,87,67,32,48,120>>                                                               \* "HWC 0x"
S_0x        == <<48,120>>
S_Pfid      == <<32,32,32,32,91,80,70,73,68,50,45,70,105,108,116,101,114,58,32>>                    \* "    [PFID2-Filter: "
S_Component == <<67,111,109,112,111,110,101,110,116>>
K_FwId      == <<70,105,114,109,119,97,114,101,73,100>>
K_FwVer     == <<70,105,114,109,119,97,114,101,86,101,114,115,105,111,110>>
K_Creator   == <<67,114,101,97,116,111,114>>
K_Upd       == <<66,102,51,85,112,100,97,116,101>>
IntfNames   == << <<66,82,80,95,72,73,68>>, <<66,82,80,95,83,69,82>>, <<66,82,80,95,67,67,73,68>>,
                  <<66,82,80,95,84,67,80>>, <<79,83,68,80>>, <<78,70,67>> >>        \* BF3INTF 0..5
Protocols   == <<"BRP", "BRP-SER", "BRP-CCID", "BRP-TCP", "BRP-OSDP", "ISO7816-4">>  \* -> BF3INTF 0..5
ProtoKnown(s) == \E i \in 1..6 : Protocols[i] = s
ProtoCode(s)  == (CHOOSE i \in 1..6 : Protocols[i] = s) - 1

RECURSIVE Dec(_)
Dec(n) == IF n < 10 THEN <<48 + n>> ELSE Dec(n \div 10) \o <<48 + (n % 10)>>
Hex2(b) == <<HexDigit(b \div 16), HexDigit(b % 16)>>
Hex4(n) == Hex2(n \div 256) \o Hex2(n % 256)
RECURSIVE HexMin(_)
HexMin(n) == IF n < 16 THEN <<HexDigit(n)>> ELSE HexMin(n \div 16) \o <<HexDigit(n % 16)>>
RECURSIVE HexBytes(_, _)
HexBytes(bs, i) == IF i > Len(bs) THEN <<>> ELSE Hex2(bs[i]) \o HexBytes(bs, i + 1)
\* Python int(): surrounding white space is ignored (signs, underscores, non-ASCII digits are outside the grammar)
IsNum(t) == LET s == Strip(t) IN Len(s) \in 1..9 /\ \A i \in 1..Len(s) : s[i] \in 48..57
RECURSIVE NumValS(_)
NumValS(s) == IF s = <<>> THEN 0 ELSE NumValS(SubSeq(s, 1, Len(s) - 1)) * 10 + (s[Len(s)] - 48)
NumVal(t) == NumValS(Strip(t))
RECURSIVE SplitOn(_, _)
SplitOn(s, c) == IF \E i \in 1..Len(s) : s[i] = c
                 THEN LET p == CHOOSE i \in 1..Len(s) : s[i] = c /\ \A r \in 1..(i - 1) : s[r] # c
                      IN  <<SubSeq(s, 1, p - 1)>> \o SplitOn(SubSeq(s, p + 1, Len(s)), c)
                 ELSE <<s>>

\* ------------------------------------------------------------------ tag-type map (BF2_TAGTYPE_MAP, is_known_tagtype)
BaseTypes    == {52, 53, 57, 61, 64, 72, 112, 131, 132}        \* 34 35 39 3D 40 48 70 83 84
IgnoredTypes == {52, 72}                                       \* SM4200 prepare, SM6300 activate
KnownRanges  == << <<52, 52>>, <<53, 56>>, <<57, 60>>, <<61, 62>>, <<64, 71>>, <<72, 72>>, <<112, 115>>, <<131, 131>>, <<132, 163>> >>
Known(t)     == \E i \in 1..Len(KnownRanges) : KnownRanges[i][1] <= t /\ t <= KnownRanges[i][2]
T_LOADER == 0   T_PERIPH == 1   T_MAIN == 2
F_BLOB == 0     F_MEM == 1      F_RAW == 2
CompType(t) == IF t \in {53, 57, 61, 64} THEN T_PERIPH ELSE IF t \in {112, 131} THEN T_LOADER ELSE T_MAIN
CompFmt(t)  == IF t \in {53, 57, 61, 64} THEN F_BLOB ELSE F_RAW
CompHw(t)   == IF t = 53 THEN <<0, 155>> ELSE IF t = 57 THEN <<0, 190>> ELSE IF t = 61 THEN <<0, 173>>
               ELSE IF t = 64 THEN <<0, 192>> ELSE <<>>        \* SM4200 BGM12X PN5180 SM6300
CompIntf(t) == IF t \in {53, 61, 64} THEN <<5>> ELSE <<>>      \* NFC

\* ------------------------------------------------------------------ (d) platform filter
FilterOk(f)  == Len(f) >= 2 /\ f[1] = 1 /\ 2 + 2 * f[2] = Len(f)
NEntries(f)  == (Len(f) - 2) \div 2
Entry(f, k)  == LET hi == f[2 * k + 1]  lo == f[2 * k + 2]
                IN  [more |-> hi >= 128, neg |-> (hi % 128) >= 64, id |-> (hi % 64) * 256 + lo]
\* well formed: the last entry does not announce a further member of its OR group
FilterClosed(f) == NEntries(f) = 0 \/ ~Entry(f, NEntries(f)).more
\* meaning of the filter bytes: AND over groups, OR inside a group, a group ends at the first entry without bit 8000
RECURSIVE GroupEnd(_, _)
GroupEnd(f, k) == IF k >= NEntries(f) \/ ~Entry(f, k).more THEN k ELSE GroupEnd(f, k + 1)
Sat(f, k, A)   == (Entry(f, k).id \in A) # Entry(f, k).neg
Meaning(f, A)  == \A k \in 1..NEntries(f) : \E j \in 1..NEntries(f) : GroupEnd(f, j) = GroupEnd(f, k) /\ Sat(f, j, A)
FilterIds(f)   == {Entry(f, k).id : k \in 1..NEntries(f)}
\* rendering as pfid2_filter_to_str steps it: tokens  ( ) | &  and atoms [neg, id]
Tok(t)  == [t |-> t, neg |-> FALSE, id |-> 0]
Atom(e) == [t |-> "id", neg |-> e.neg, id |-> e.id]
RECURSIVE JoinAtoms(_, _)
JoinAtoms(as, i) == IF i > Len(as) THEN <<>> ELSE (IF i > 1 THEN <<Tok("|")>> ELSE <<>>) \o <<as[i]>> \o JoinAtoms(as, i + 1)
RECURSIVE RenderFrom(_, _, _, _)
RenderFrom(f, k, pend, out) ==          \* pend: atoms of the open OR group; out: tokens so far
    IF k > NEntries(f) THEN out         \* an open group at the end is dropped by the code
    ELSE LET e == Entry(f, k)  p2 == Append(pend, Atom(e)) IN
         IF e.more THEN RenderFrom(f, k + 1, p2, out)
         ELSE LET g == IF Len(p2) = 1 THEN p2 ELSE <<Tok("(")>> \o JoinAtoms(p2, 1) \o <<Tok(")")>>
              IN  RenderFrom(f, k + 1, <<>>, (IF out = <<>> THEN <<>> ELSE Append(out, Tok("&"))) \o g)
RenderTokens(f) == RenderFrom(f, 1, <<>>, <<>>)
\* evaluation of a rendered expression with the usual precedence  ! > & > |  and parentheses
RECURSIVE PExpr(_, _, _), PAnd(_, _, _), PUn(_, _, _), PAndRest(_, _, _), POrRest(_, _, _)
PUn(t, i, A) == IF t[i].t = "(" THEN LET r == PExpr(t, i + 1, A) IN [v |-> r.v, n |-> r.n + 1]
                ELSE [v |-> (t[i].id \in A) # t[i].neg, n |-> i + 1]
PAndRest(t, r, A) == IF r.n <= Len(t) /\ t[r.n].t = "&"
                     THEN LET u == PUn(t, r.n + 1, A) IN PAndRest(t, [v |-> r.v /\ u.v, n |-> u.n], A) ELSE r
PAnd(t, i, A) == PAndRest(t, PUn(t, i, A), A)
POrRest(t, r, A) == IF r.n <= Len(t) /\ t[r.n].t = "|"
                    THEN LET u == PAnd(t, r.n + 1, A) IN POrRest(t, [v |-> r.v \/ u.v, n |-> u.n], A) ELSE r
PExpr(t, i, A) == POrRest(t, PAnd(t, i, A), A)
EvalTokens(t, A) == IF t = <<>> THEN TRUE ELSE PExpr(t, 1, A).v
\* text of the rendering; names = sequence of <<id, chars>> (the library's hardware-id name table, data)
HasName(id, names) == \E i \in 1..Len(names) : names[i][1] = id
NameOf(id, names)  == names[CHOOSE i \in 1..Len(names) : names[i][1] = id][2]
RECURSIVE Flatten(_, _, _)
Flatten(t, i, names) ==
    IF i > Len(t) THEN <<>>
    ELSE (IF t[i].t = "(" THEN <<40>> ELSE IF t[i].t = ")" THEN <<41>> ELSE IF t[i].t = "|" THEN <<32, 124, 32>>
          ELSE IF t[i].t = "&" THEN <<32, 38, 32>>
          ELSE (IF t[i].neg THEN <<33>> ELSE <<>>) \o
               (IF HasName(t[i].id, names) THEN NameOf(t[i].id, names) ELSE S_0x \o Hex4(t[i].id)))
         \o Flatten(t, i + 1, names)
FilterText(f, names) == Flatten(RenderTokens(f), 1, names)

\* ------------------------------------------------------------------ (c) payload: unpack / convert on symbolic extents
AppendIds(ids, id0, n) ==
    IF n = 0 THEN ids
    ELSE IF ids # <<>> /\ ids[Len(ids)][1] + ids[Len(ids)][2] = id0
         THEN [ids EXCEPT ![Len(ids)] = <<@[1], @[2] + n>>] ELSE Append(ids, <<id0, n>>)
RECURSIVE AllIdsFrom(_, _, _)
AllIdsFrom(runs, i, acc) == IF i > Len(runs) THEN acc ELSE AllIdsFrom(runs, i + 1, AppendIds(acc, runs[i][1], runs[i][2]))
AllIds(runs) == AllIdsFrom(runs, 1, <<>>)
AbsRuns(runs) == LET t0 == runs[1][3] IN
    Mat([i \in 1..Len(runs) |-> [id |-> runs[i][1], n |-> runs[i][2], a |-> (runs[i][3] - t0) * PAGE + runs[i][4], len |-> runs[i][5]]], Len(runs))
\* blocks is a dict in the code: a second block with the same start address replaces the first
PutBlock(blocks, b) == IF \E i \in 1..Len(blocks) : blocks[i].adr = b.adr
                       THEN Mat([i \in 1..Len(blocks) |-> IF blocks[i].adr = b.adr THEN b ELSE blocks[i]], Len(blocks))
                       ELSE Append(blocks, b)
RECURSIVE UnpackFrom(_, _, _, _, _, _, _)
UnpackFrom(x, i, blocks, start, end, cur, drop) ==          \* cur = [ids, len]; start = -1: None
    IF i > Len(x) THEN (IF cur.ids # <<>> THEN PutBlock(blocks, [adr |-> start, len |-> cur.len, ids |-> cur.ids]) ELSE blocks)
    ELSE LET r    == x[i]
             gap  == r.a # end /\ cur.ids # <<>>
             b1   == IF gap THEN PutBlock(blocks, [adr |-> start, len |-> cur.len, ids |-> cur.ids]) ELSE blocks
             cur1 == IF gap THEN (IF drop THEN [ids |-> <<>>, len |-> 0] ELSE [ids |-> <<<<r.id, 1>>>>, len |-> r.len])
                     ELSE [ids |-> AppendIds(cur.ids, r.id, 1), len |-> cur.len + r.len]
             st1  == IF gap THEN r.a ELSE IF start = -1 THEN r.a ELSE start
             cur2 == [ids |-> AppendIds(cur1.ids, r.id + 1, r.n - 1), len |-> cur1.len + (r.n - 1) * r.len]
         IN  UnpackFrom(x, i + 1, b1, st1, r.a + r.n * r.len, cur2, drop)
\* insertion by address without recursion (blocks of a file in address order are appended)
InsertBlock(sorted, b) ==
    IF sorted = <<>> \/ sorted[Len(sorted)].adr < b.adr THEN Append(sorted, b)
    ELSE LET p == Cardinality({j \in 1..Len(sorted) : sorted[j].adr < b.adr})
         IN  SubSeq(sorted, 1, p) \o <<b>> \o SubSeq(sorted, p + 1, Len(sorted))
RECURSIVE SortBlocks(_, _, _)
SortBlocks(bs, i, acc) == IF i > Len(bs) THEN acc ELSE SortBlocks(bs, i + 1, InsertBlock(acc, bs[i]))
\* blocks sorted by address: sequence of [adr, len, ids]
Unpack(runs, drop) == SortBlocks(UnpackFrom(AbsRuns(runs), 1, <<>>, -1, 0, [ids |-> <<>>, len |-> 0], drop), 1, <<>>)
Convert(runs, fmt, drop) ==
    IF fmt = F_RAW THEN [err |-> "", ids |-> AllIds(runs), blocks |-> <<>>]
    ELSE LET b == Unpack(runs, drop) IN
         IF fmt = F_BLOB THEN (IF Len(b) = 1 /\ b[1].adr = 0 THEN [err |-> "", ids |-> b[1].ids, blocks |-> <<>>]
                               ELSE [err |-> "blob-gap-or-nonzero-start", ids |-> <<>>, blocks |-> <<>>])
         ELSE IF fmt = F_MEM THEN [err |-> "", ids |-> <<>>, blocks |-> b]
         ELSE [err |-> "format-not-supported", ids |-> <<>>, blocks |-> <<>>]

\* ------------------------------------------------------------------ (a) line grammar on abstract lines
\* a line: [k, name, s, text, bytes, ty, run]; data lines have k = "data", ty = tag type (254 start, 255 end marker)
Item(k, name, s, text, bytes, runs) == [k |-> k, name |-> name, s |-> s, text |-> text, bytes |-> bytes, runs |-> runs]
Line(k, name, s, text, bytes, ty, run) == [k |-> k, name |-> name, s |-> s, text |-> text, bytes |-> bytes, ty |-> ty, run |-> run]
RECURSIVE ExpandRuns(_, _)
ExpandRuns(runs, i) == IF i > Len(runs) THEN <<>>
    ELSE LET r == runs[i] IN Mat([j \in 1..r[2] |-> <<r[1] + j - 1, 1, r[3], r[4] + (j - 1) * r[5], r[5]>>], r[2]) \o ExpandRuns(runs, i + 1)
LinesOfItem(it) == IF it.k = "grp"
                   THEN LET e == ExpandRuns(it.runs, 1) IN
                        <<Line("data", "", "", <<>>, <<>>, 254, <<>>)>>
                        \o Mat([j \in 1..Len(e) |-> Line("data", "", "", <<>>, <<>>, e[j][3], e[j])], Len(e))
                        \o <<Line("data", "", "", <<>>, <<>>, 255, <<>>)>>
                   ELSE <<Line(it.k, it.name, it.s, it.text, it.bytes, 0, <<>>)>>
RECURSIVE LinesOf(_, _)
LinesOf(items, i) == IF i > Len(items) THEN <<>> ELSE LinesOfItem(items[i]) \o LinesOf(items, i + 1)
\* parse_bf2_file: a group is delivered at its end marker (if not empty); the start marker is skipped
RECURSIVE ParseLines(_, _, _, _)
ParseLines(ls, i, fw, out) ==
    IF i > Len(ls) THEN out                                  \* lines of a group without end marker are never delivered
    ELSE LET l == ls[i] IN
         IF l.k = "data" THEN
             IF l.ty = 255 THEN (IF fw # <<>> THEN ParseLines(ls, i + 1, <<>>, Append(out, Item("grp", "", "", <<>>, <<>>, fw)))
                                 ELSE ParseLines(ls, i + 1, fw, out))
             ELSE IF l.ty = 254 THEN ParseLines(ls, i + 1, fw, out)
             ELSE ParseLines(ls, i + 1, Append(fw, l.run), out)
         ELSE ParseLines(ls, i + 1, fw, Append(out, Item(l.k, l.name, l.s, l.text, l.bytes, <<>>)))
ExpandItems(items) == Mat([i \in 1..Len(items) |-> IF items[i].k = "grp" THEN [items[i] EXCEPT !.runs = ExpandRuns(@, 1)] ELSE items[i]], Len(items))

\* ------------------------------------------------------------------ (a') the same grammar on the characters of the file
\* a text line (with its newline) -> [k, name, val, params, ty, idx, tag, raw];  k = "skip" | "err" | "data" | "ins" | "cmt"
TL(k, name, val, params, ty, idx, tag, raw) == [k |-> k, name |-> name, val |-> val, params |-> params, ty |-> ty, idx |-> idx, tag |-> tag, raw |-> raw]
TLErr == TL("err", <<>>, <<>>, <<>>, 0, 0, <<>>, <<>>)
RECURSIVE FirstSpace(_, _)
FirstSpace(x, j) == IF j > Len(x) \/ IsSpace(x[j]) THEN j ELSE FirstSpace(x, j + 1)
RECURSIVE ParamsFrom(_, _, _)
ParamsFrom(ps, j, acc) ==                                   \* dict(p.strip().split("=") for p in params_str.split(",") if p)
    IF j > Len(ps) THEN [ok |-> TRUE, d |-> acc]
    ELSE IF ps[j] = <<>> THEN ParamsFrom(ps, j + 1, acc)
    ELSE LET kv == SplitOn(Strip(ps[j]), 61) IN
         IF Len(kv) # 2 THEN [ok |-> FALSE, d |-> <<>>] ELSE ParamsFrom(ps, j + 1, PutComment(acc, kv[1], kv[2]))
TextLine(line) ==
    IF Len(line) >= 1 /\ line[1] = 58 THEN                  \* `:` idx(2) type(1) len(1) tag(len) ...
        LET h == HexDecode(line) IN
        IF ~h.ok \/ Len(h.bin) < 4 THEN TLErr
        ELSE IF Len(h.bin) < 4 + h.bin[4] THEN TLErr
        ELSE TL("data", <<>>, <<>>, <<>>, h.bin[3], h.bin[1] * 256 + h.bin[2], SubSeq(h.bin, 5, 4 + h.bin[4]), h.bin)
    ELSE IF Len(line) >= 2 /\ line[1] = 35 /\ line[2] = 62 THEN        \* `#>CMD k=v,...`
        LET x == SubSeq(line, 3, Len(line))
            a == LStrip(x, 1) IN
        IF a > Len(x) THEN TLErr
        ELSE LET b == FirstSpace(x, a)
                 c == LStrip(x, b)
                 ps == IF c > Len(x) THEN <<>> ELSE SplitOn(SubSeq(x, c, Len(x)), 44)
                 pr == ParamsFrom(ps, 1, <<>>)
             IN  IF ~pr.ok THEN TLErr ELSE TL("ins", SubSeq(x, a, b - 1), <<>>, pr.d, 0, 0, <<>>, <<>>)
    ELSE IF Len(line) >= 2 /\ line[1] = 35 /\ line[2] = 35 THEN        \* `##name: value`
        LET parts == SplitOn(SubSeq(line, 3, Len(line)), 58) IN
        IF Len(parts) # 2 THEN TLErr ELSE TL("cmt", parts[1], Strip(parts[2]), <<>>, 0, 0, <<>>, <<>>)
    ELSE TL("skip", <<>>, <<>>, <<>>, 0, 0, <<>>, <<>>)
TextLines(t) == LET nls == SelectSeq(Mat([j \in 1..Len(t) |-> j], Len(t)), LAMBDA j : t[j] = 10)
                    n == Len(nls) + 1
                IN  Mat([j \in 1..n |-> SubSeq(t, IF j = 1 THEN 1 ELSE nls[j - 1] + 1, IF j <= Len(nls) THEN nls[j] ELSE Len(t))], n)
Obj(k, name, val, params, lines) == [k |-> k, name |-> name, val |-> val, params |-> params, lines |-> lines]
RECURSIVE ParseTextFrom(_, _, _, _)
ParseTextFrom(ls, j, fw, out) ==
    IF j > Len(ls) THEN [ok |-> TRUE, objs |-> out]
    ELSE LET l == TextLine(ls[j]) IN
         IF l.k = "err" THEN [ok |-> FALSE, objs |-> <<>>]
         ELSE IF l.k = "skip" THEN ParseTextFrom(ls, j + 1, fw, out)
         ELSE IF l.k = "data" THEN
             (IF l.ty = 255 THEN (IF fw # <<>> THEN ParseTextFrom(ls, j + 1, <<>>, Append(out, Obj("load", <<>>, <<>>, <<>>, fw)))
                                  ELSE ParseTextFrom(ls, j + 1, fw, out))
              ELSE IF l.ty = 254 THEN ParseTextFrom(ls, j + 1, fw, out)
              ELSE ParseTextFrom(ls, j + 1, Append(fw, <<l.ty, l.idx, l.tag, l.raw>>), out))
         ELSE ParseTextFrom(ls, j + 1, fw, Append(out, Obj(l.k, l.name, l.val, l.params, <<>>)))
ParseText(t) == ParseTextFrom(TextLines(t), 1, <<>>, <<>>)

\* ------------------------------------------------------------------ (b) instructions and the section machine
Absent == [has |-> FALSE, text |-> <<>>]
Pres(t) == [has |-> TRUE, text |-> t]
NoVer == [has |-> FALSE, star |-> FALSE, bytes |-> <<>>]
NoIns == [reboot |-> FALSE, crc |-> Absent, sel |-> [has |-> FALSE, bytes |-> <<>>], ver |-> NoVer,
          fw |-> Absent, creator |-> Absent, upd |-> Absent, sif |-> [has |-> FALSE, s |-> ""]]
NoCm  == [fid |-> Absent, fver |-> Absent, creator |-> Absent, upd |-> Absent]
\* bf2_instrs[instr] = params  (comments and instructions share one dictionary)
SetIns(ins, it) ==
    IF it.name = "REBOOT" THEN [ins EXCEPT !.reboot = TRUE]
    ELSE IF it.name = "CRC" THEN [ins EXCEPT !.crc = Pres(it.text)]
    ELSE IF it.name = "SELECT" THEN [ins EXCEPT !.sel = [has |-> TRUE, bytes |-> it.bytes]]
    ELSE IF it.name = "CHECK_FWVER" THEN [ins EXCEPT !.ver = [has |-> TRUE, star |-> it.s = "*", bytes |-> it.bytes]]
    ELSE IF it.name = "Firmware" THEN [ins EXCEPT !.fw = Pres(it.text)]
    ELSE IF it.name = "Creator" THEN [ins EXCEPT !.creator = Pres(it.text)]
    ELSE IF it.name = "Bf3Update" THEN [ins EXCEPT !.upd = Pres(it.text)]
    ELSE IF it.name = "SELECT_IF" THEN [ins EXCEPT !.sif = [has |-> TRUE, s |-> it.s]]
    ELSE ins
\* `##CRC: 0x1A2B` -> 4 bytes big endian (int(text[2:], 16)); <<-1>> if not 1..8 hex digits
CrcBytes(text) ==
    LET d == IF Len(text) > 2 THEN SubSeq(text, 3, Len(text)) ELSE <<>> IN
    IF Len(d) \notin 1..8 \/ \E i \in 1..Len(d) : HexVal(d[i]) > 15 THEN <<-1>>
    ELSE LET p == Mat([i \in 1..8 |-> IF i <= 8 - Len(d) THEN 0 ELSE HexVal(d[i - (8 - Len(d))])], 8)
         IN  <<16 * p[1] + p[2], 16 * p[3] + p[4], 16 * p[5] + p[6], 16 * p[7] + p[8]>>
SpecialBgm(pf) == pf = <<1, 1, 0, 182>> \/ pf = <<1, 2, 128, 182, 0, 190>> \/ pf = <<1, 2, 128, 190, 0, 182>>
NoDesc == [fmt |-> 0, type |-> 0, hw |-> <<>>, intf |-> <<>>, reboot |-> FALSE, crc |-> <<>>, hasver |-> FALSE, ver |-> <<>>,
           haspf |-> FALSE, pf |-> <<>>]
\* exec_bf2instrs for a section whose first tag type is ty: [err, skip, desc, ins, cm]
Exec(ins, cm, ty) ==
    LET ctype  == CompType(ty)
        crcB   == IF ins.crc.has THEN CrcBytes(ins.crc.text) ELSE <<>>
        pf     == ins.sel.bytes
        selP   == ins.sel.has /\ ctype = T_PERIPH
        selErr == selP /\ ~SpecialBgm(pf) /\ ~(Len(pf) >= 2 /\ pf[1] = 1 /\ pf[2] = 1)
        hw     == IF selP THEN (IF SpecialBgm(pf) THEN <<0, 190>> ELSE SubSeq(pf, Len(pf) - 1, Len(pf))) ELSE CompHw(ty)
        vb     == ins.ver.bytes
        verOn  == ins.ver.has /\ ~ins.ver.star
        verErr == verOn /\ Len(vb) < 3
        verC   == IF verOn THEN [has |-> TRUE, v |-> SubSeq(vb, 4, Min2(Len(vb), 3 + vb[3]))] ELSE [has |-> FALSE, v |-> <<>>]
        fwt    == ins.fw.text
        fid    == SubSeq(fwt, 1, Min2(4, Len(fwt)))
        fvs    == IF Len(fwt) >= 16 THEN SubSeq(fwt, 16, Min2(22, Len(fwt))) ELSE <<>>
        dbg    == Len(fvs) >= 2 /\ fvs[1] = 68 /\ fvs[2] = 45                    \* "D-"
        parts  == SplitOn(fvs, 46)
        fwErr  == ins.fw.has /\ ~dbg /\ (~IsNum(fid) \/ NumVal(fid) > 65535
                                          \/ \E i \in 1..Len(parts) : ~IsNum(parts[i]) \/ NumVal(parts[i]) > 255)
        fwbuf  == <<NumVal(fid) \div 256, NumVal(fid) % 256>> \o Mat([i \in 1..Len(parts) |-> NumVal(parts[i])], Len(parts))
        verF   == IF ins.fw.has /\ ~dbg /\ ctype \in {T_LOADER, T_MAIN} THEN [has |-> TRUE, v |-> fwbuf] ELSE verC
        sifOn  == ins.sif.has /\ ins.sif.s # "*"
        sifBad == sifOn /\ ~ProtoKnown(ins.sif.s)
        intf   == IF sifOn /\ ~sifBad THEN <<ProtoCode(ins.sif.s)>> ELSE CompIntf(ty)
        err    == IF ins.crc.has /\ crcB = <<-1>> THEN "invalid-crc" ELSE IF selErr THEN "invalid-pfid2"
                  ELSE IF verErr THEN "invalid-versiondesc" ELSE IF fwErr THEN "invalid-firmware-comment" ELSE ""
    IN  IF err # "" THEN [err |-> err, skip |-> FALSE, desc |-> NoDesc, ins |-> ins, cm |-> cm]
        ELSE [err |-> "", skip |-> sifBad,
              desc |-> [fmt |-> CompFmt(ty), type |-> ctype, hw |-> hw, intf |-> intf, reboot |-> ins.reboot, crc |-> crcB,
                        hasver |-> verF.has, ver |-> verF.v, haspf |-> ins.sel.has, pf |-> pf],
              \* REBOOT, CRC, CHECK_FWVER are consumed; SELECT, SELECT_IF, Firmware, Creator, Bf3Update persist
              ins  |-> [ins EXCEPT !.reboot = FALSE, !.crc = Absent, !.ver = NoVer],
              cm   |-> [fid     |-> IF ins.fw.has THEN Pres(fid) ELSE cm.fid,
                        fver    |-> IF ins.fw.has THEN Pres(fvs) ELSE cm.fver,
                        creator |-> IF ins.creator.has THEN Pres(ins.creator.text \o S_Suffix) ELSE cm.creator,
                        upd     |-> IF ins.upd.has THEN ins.upd ELSE cm.upd]]

\* machine state: data (runs of the running section), ins, comps (sequence of [desc, ids]), cm, err
St0 == [data |-> <<>>, ins |-> NoIns, comps |-> <<>>, cm |-> NoCm, err |-> ""]
Fail(st, e) == [st EXCEPT !.err = e]
\* emit_bf3comp
Emit(st, dev) ==
    IF st.err # "" THEN st
    ELSE IF st.data = <<>> THEN Fail(st, "emit-without-data")                    \* IndexError in the code (C14)
    ELSE LET ty == st.data[1][3] IN
         IF ty \notin BaseTypes THEN Fail(st, "unsupported-tagtype")
         ELSE IF ty \in IgnoredTypes THEN st                                     \* nothing consumed, nothing cleared here
         ELSE LET x == Exec(st.ins, st.cm, ty) IN
              IF x.err # "" THEN Fail(st, x.err)
              ELSE IF x.skip THEN [st EXCEPT !.ins = x.ins, !.cm = x.cm, !.data = IF dev.retain THEN @ ELSE <<>>]
              ELSE LET c == Convert(st.data, x.desc.fmt, dev.drop) IN
                   IF c.err # "" THEN Fail(st, c.err)
                   ELSE [st EXCEPT !.ins = x.ins, !.cm = x.cm, !.data = <<>>,
                                   !.comps = Append(@, [desc |-> x.desc, ids |-> c.ids])]
Step(st, it, dev) ==
    IF st.err # "" THEN st
    ELSE IF it.k = "grp" THEN
        LET ty == it.runs[1][3] IN
        IF ~Known(ty) THEN Fail(st, "unknown-tagtype")
        ELSE IF ty \in BaseTypes /\ st.data # <<>>
             THEN LET s2 == Emit(st, dev) IN [s2 EXCEPT !.data = it.runs]        \* the caller clears in every case
             ELSE [st EXCEPT !.data = @ \o it.runs]
    ELSE LET s1 == IF it.name = "CHECK_FWVER" /\ st.ins.ver.has THEN Emit(st, dev) ELSE st
             s2 == [s1 EXCEPT !.ins = SetIns(@, it)]
         IN  IF it.name = "REBOOT" THEN Emit(s2, dev) ELSE s2
RECURSIVE RunFrom(_, _, _, _)
RunFrom(items, i, st, dev) == IF i > Len(items) THEN st ELSE RunFrom(items, i + 1, Step(st, items[i], dev), dev)

\* description as the sorted sequence of <<tag, bytes>>
DescSeq(d) == << <<193, <<d.fmt>>>>, <<195, <<d.type>>>> >>
              \o (IF d.hw # <<>> THEN << <<196, d.hw>> >> ELSE <<>>)
              \o (IF d.reboot THEN << <<197, <<1>>>> >> ELSE <<>>)
              \o (IF d.intf # <<>> THEN << <<198, d.intf>> >> ELSE <<>>)
              \o (IF d.crc # <<>> THEN << <<199, d.crc>> >> ELSE <<>>)
              \o (IF d.hasver THEN << <<200, d.ver>> >> ELSE <<>>)
              \o (IF d.haspf THEN << <<201, d.pf>> >> ELSE <<>>)
\* annotations: the per-component summary comment
StartsWith(s, p) == Len(s) >= Len(p) /\ SubSeq(s, 1, Len(p)) = p
PeriphName(d, names) == LET hw == d.hw[1] * 256 + d.hw[2] IN IF HasName(hw, names) THEN NameOf(hw, names) ELSE S_Hwc \o HexMin(hw)
CompCommentErr(d, names) ==
    IF d.type = T_LOADER /\ d.intf = <<>> THEN "loader-without-interface"        \* KeyError in the code
    ELSE IF d.type = T_PERIPH /\ d.hasver /\ Len(d.ver) >= 7 /\ StartsWith(PeriphName(d, names), <<66, 71, 77>>)
            /\ (\E j \in 1..Len(d.ver) : d.ver[j] >= 128) THEN "bgm-version-not-text"   \* bytes.decode(); only ASCII and FF are in the grammar
    ELSE IF d.haspf /\ ~FilterOk(d.pf) THEN "invalid-filter-header" ELSE ""
CompComment(d, names) ==
    LET kind == IF d.type = T_MAIN THEN S_Main
                ELSE IF d.type = T_LOADER THEN IntfNames[d.intf[1] + 1] \o S_Loader
                ELSE LET nm == PeriphName(d, names)
                         v  == d.ver
                         vs == IF ~d.hasver \/ v = <<>> THEN <<>>
                               ELSE IF StartsWith(nm, <<83, 77>>) /\ Len(v) >= 4
                                    THEN <<32>> \o Dec(v[1]) \o <<46>> \o Dec(v[2]) \o <<46>> \o Dec(v[3]) \o <<46>> \o Dec(v[4])
                               ELSE IF StartsWith(nm, <<66, 71, 77>>) /\ Len(v) >= 7 THEN S_Version \o v
                               ELSE S_Version \o HexBytes(v, 1)
                     IN  nm \o S_Firmware \o vs
    IN  kind \o (IF d.haspf THEN S_Pfid \o FilterText(d.pf, names) \o <<93>> ELSE <<>>)
\* bf2_import: [err, comps (sorted by TYPE, stable; each [desc, ids]), comments (set of <<key, value>>)]
Import(items, enforce, names, dev) ==
    LET s1 == RunFrom(items, 1, St0, dev)
        s2 == IF s1.err = "" /\ s1.data # <<>> THEN Emit(s1, dev) ELSE s1
        bad == [err |-> s2.err, comps |-> <<>>, comments |-> {}]
    IN  IF s2.err # "" THEN bad
        ELSE IF enforce /\ ~s2.cm.upd.has THEN [bad EXCEPT !.err = "legacy-without-bf3update"]
        ELSE LET srt == SelectSeq(s2.comps, LAMBDA c : c.desc.type = 0) \o SelectSeq(s2.comps, LAMBDA c : c.desc.type = 1)
                        \o SelectSeq(s2.comps, LAMBDA c : c.desc.type = 2)
                 errs == {i \in 1..Len(srt) : CompCommentErr(srt[i].desc, names) # ""}
             IN  IF errs # {} THEN [bad EXCEPT !.err = CompCommentErr(srt[CHOOSE i \in errs : \A j \in errs : i <= j].desc, names)]
                 ELSE [err |-> "",
                       comps |-> Mat([i \in 1..Len(srt) |-> [desc |-> DescSeq(srt[i].desc), ids |-> srt[i].ids]], Len(srt)),
                       comments |-> (IF s2.cm.fid.has THEN {<<K_FwId, s2.cm.fid.text>>, <<K_FwVer, s2.cm.fver.text>>} ELSE {})
                                    \cup (IF s2.cm.creator.has THEN {<<K_Creator, s2.cm.creator.text>>} ELSE {})
                                    \cup (IF s2.cm.upd.has THEN {<<K_Upd, s2.cm.upd.text>>} ELSE {})
                                    \cup {<<S_Component \o Dec(i - 1), CompComment(srt[i].desc, names)>> : i \in 1..Len(srt)}]
=============================================================================
