--------------------------- MODULE Trace_LazyTable ---------------------------
(* C->S for the lazily built table / in-place rescaling (C20).
   One event = one preemption point: the real thread A was stopped after `idx` trace events
   (source lines or byte codes) of _maybe_precompute() / scale() on a FRESH object, then the
   real thread B ran complete operations on the same object, then A ran to its end.
   The event carries what was observed of the real object, abstracted by the recorder only in
   the way LazyTable abstracts it (a list that equals the first k entries of the sequential
   table becomes Prefix(k), any other list a list with a 0 entry; a coordinate triple that
   stands for the sequential point is Old (z # 1) or New (z = 1), any other is "mixed"):
     mode                  "table" (generator, affine) / "scale" (Jacobian point, no generator) / "jtable" (generator
                           given in Jacobian form; B rescales it while A builds the table)
     adj                   TRUE: events idx and idx+1 of a run are exactly one statement of the builder apart (only the
                           traced function's own frame is stopped); FALSE: callees are stopped too, and the number of
                           events may depend on history (caches), so only the many-step relation is required
     op                    "pt": A was parked at trace event idx while B ran, then A ran to its end;
                           "intr": A's operation got an exception at trace event idx (the builder is abandoned there:
                           LazyTable!Interrupt), B's operations ran afterwards on the same object (fields b_..) and on a fresh
                           object of the same kind (fields f_..);  "fail": A's operation was a multiplication that fails its
                           precondition inside the table construction, B worked on fresh objects.
                           The same clauses judge all three: what A leaves behind is a state of LazyTable.
     blocked               0: B completed while A was parked; 1: B waited for A and completed after A had been resumed
                           (serialisation, LazyTable variant LOCKED = "finally"); 2: B or A never completed although
                           nothing was parked (LazyTable!NeverBlockedForever)
     b_builds              B's programme contains an operation that (re)builds the table (a multiplication, a verification);
                           a programme of read-only / rescaling operations leaves the table as it is - but never shorter
                           (LazyTable!TableNeverShrinks)
     n                     length of the table of the sequential run
     loc_len, loc_ok       A's local list (loc_known = FALSE: none was found at this stop)
     pub_len, pub_ok, same self.__precompute before B ran; same = it IS A's local list
     z1, co_ok             self.__coords before B ran
     b_len, b_ok, b_z1, b_co_ok    the same after B's operations;  res_bad = number of B results
                                   that differ from the sequential results (res = how many)
     f_len, f_ok, f_z1, f_co_ok, f_res_bad     after A has finished and B has repeated its operations
   The states are judged by the invariants of LazyTable, the step from the previous preemption
   point of the same run (grp) by LazyTable's EffectTo / EffectStarTo.  Events of one grp are
   consecutive and ordered by idx. *)
EXTENDS Naturals, Sequences, Json, IOUtils, TLC
Trace == ndJsonDeserialize(IOEnv.TRACE_FILE)
CONSTANT N        \* table length of the sequential run of this trace's curve (cfg); every event carries it as n
VARIABLE i

Tab(n, len, ok) == IF ok /\ len <= n THEN SubSeq([j \in 1..n |-> j], 1, len)
                   ELSE SubSeq([j \in 1..len |-> 0], 1, len)
Co(z1, ok) == IF ~ok THEN <<"?", "?", "?">> ELSE IF z1 THEN <<"x", "y", "one">> ELSE <<"X", "Y", "Z">>

\* LazyTable with its variables replaced by the recorded state
LT(md, l, p, s, c, rd, o) ==
    INSTANCE LazyTable WITH EARLY_PUBLISH <- FALSE, SPLIT_ASSIGN <- FALSE, TORN_READ <- FALSE, LOCKED <- "none", lk <- "free",
                            mode <- md, bpc <- "hidden", loc <- l, pub <- p, shared <- s, coords <- c,
                            tmp <- <<"-", "-", "-">>, rdone <- rd, obs <- o

NoObs == [op |-> "none", seen |-> 0, ok |-> TRUE]
\* the object when A is stopped (no reader has run yet), after B's operations, after A has finished
AtS(ev) == [md |-> ev.mode, l |-> Tab(ev.n, ev.loc_len, ev.loc_ok), p |-> Tab(ev.n, ev.pub_len, ev.pub_ok),
            s |-> ev.same, c |-> Co(ev.z1, ev.co_ok), rd |-> FALSE, o |-> NoObs]
\* B's operations as one observation: what it saw on entry, whether all results are the sequential ones
AtB(ev) == [md |-> ev.mode, l |-> Tab(ev.n, ev.loc_len, ev.loc_ok), p |-> Tab(ev.n, ev.b_len, ev.b_ok),
            s |-> FALSE, c |-> Co(ev.b_z1, ev.b_co_ok), rd |-> TRUE,
            o |-> [op |-> "mul", seen |-> ev.pub_len, ok |-> ev.res_bad = 0]]
AtF(ev) == [md |-> ev.mode, l |-> Tab(ev.n, ev.loc_len, ev.loc_ok), p |-> Tab(ev.n, ev.f_len, ev.f_ok),
            s |-> FALSE, c |-> Co(ev.f_z1, ev.f_co_ok), rd |-> TRUE,
            o |-> [op |-> "mul", seen |-> ev.f_len, ok |-> ev.f_res_bad = 0]]
PubOK(x)     == LT(x.md, x.l, x.p, x.s, x.c, x.rd, x.o)!PubEmptyOrComplete
CoordsOK(x)  == LT(x.md, x.l, x.p, x.s, x.c, x.rd, x.o)!CoordsOldOrNew
LocOK(x)     == LT(x.md, x.l, x.p, x.s, x.c, x.rd, x.o)!LocIsPrefix
AloneOK(x)   == LT(x.md, x.l, x.p, x.s, x.c, x.rd, x.o)!AloneOK
ReaderOK(x)  == LT(x.md, x.l, x.p, x.s, x.c, x.rd, x.o)!ReaderOK
Complete(x)  == LT(x.md, x.l, x.p, x.s, x.c, x.rd, x.o)!TableComplete
IsScaled(x)  == LT(x.md, x.l, x.p, x.s, x.c, x.rd, x.o)!IsScaled
Step1(x, y)  == LT(x.md, x.l, x.p, x.s, x.c, x.rd, x.o)!EffectTo(y.l, y.p, y.s, y.c)
StepN(x, y)  == LT(x.md, x.l, x.p, x.s, x.c, x.rd, x.o)!EffectStarTo(y.l, y.p, y.s, y.c)

Verdict(ev, prev, hasPrev) ==
    LET s == AtS(ev)  b == AtB(ev)  f == AtF(ev) IN
    IF ev.mode \notin {"table", "scale", "jtable"} \/ ev.op \notin {"pt", "intr", "fail"} THEN "bad-event"
    ELSE IF ev.blocked = 2 THEN "blocked-forever"
    ELSE IF ev.n # N THEN "table-length"
    ELSE IF ~PubOK(s) THEN "table-partly-visible"
    ELSE IF ~CoordsOK(s) THEN "coords-mixed"
    ELSE IF ~LocOK(s) THEN "local-list"
    ELSE IF ~AloneOK(s) THEN "published-before-complete"
    ELSE IF hasPrev /\ ev.idx <= prev.idx THEN "order"
    \* (one source line of the builder may be any number of statements of the model - a call of a helper that builds the
    \*  whole list, say - so the step from one pre-emption point to the next is required to be a finite sequence of builder
    \*  statements, never exactly one: how the code is cut into lines is not part of the property)
    \* (loc_known = FALSE: the observer found no list that is the builder's at this stop - it lives somewhere the observer
    \*  does not look, e.g. on the evaluation stack between a helper's return and the assignment; nothing is said about it then)
    ELSE IF hasPrev /\ ev.loc_known /\ prev.loc_known /\ ~StepN(AtS(prev), s) THEN "builder-steps"
    ELSE IF ~ReaderOK(b) THEN "reader-result"
    ELSE IF ~CoordsOK(b) THEN "reader-coords"
    ELSE IF ev.b_len < ev.pub_len THEN "table-lost"
    ELSE IF ev.mode # "scale" /\ ev.res > 0 /\ ev.b_builds /\ ~Complete(b) THEN "reader-table"
    ELSE IF ~ReaderOK(f) THEN "final-result"
    ELSE IF ~CoordsOK(f) THEN "final-coords"
    ELSE IF ev.mode # "scale" /\ ~Complete(f) THEN "final-table"
    ELSE IF ev.mode = "scale" /\ ~IsScaled(f) THEN "final-not-scaled"
    ELSE "ok"

Init == i = 1
Next == /\ i <= Len(Trace)
        /\ LET hasPrev == i > 1 /\ Trace[IF i > 1 THEN i - 1 ELSE 1].grp = Trace[i].grp
               v == Verdict(Trace[i], Trace[IF i > 1 THEN i - 1 ELSE 1], hasPrev)
           IN IF v = "ok" THEN TRUE ELSE PrintT(<<"REJ", Trace[i].tid, v, "">>)
        /\ i' = i + 1
        /\ IF i = Len(Trace) THEN PrintT(<<"DONE", i>>) ELSE TRUE
=============================================================================
