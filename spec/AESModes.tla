------------------------------ MODULE AESModes ------------------------------
(* The five confidentiality modes of NIST SP 800-38A over an arbitrary block cipher, twice:

   (1) as WHOLE-MESSAGE FUNCTIONS, transcribed from the standard's equations
       (6.1 ECB, 6.2 CBC, 6.3 CFB with s-cell segments, 6.4 OFB, 6.5 CTR with the standard
       incrementing function over the whole block, Appendix B.1 with m = b);
   (2) as STATE MACHINES with one step per call  encrypt(chunk) / decrypt(chunk)  on a mode object,
       mirroring what the bundled pyaes keeps between calls:
         CBC  reg = last cipher block                       (one block per call)
         CFB  reg = shift register, seg = segment size      (a multiple of seg cells per call)
         OFB  reg = key stream cells already used of the current block (re-encrypted when the
              remainder runs dry), rem = unused key stream  (any number of cells per call)
         CTR  reg = counter as BLK cells (increment with carry; all-ones rolls over to zero),
              rem = unused key stream                       (any number of cells per call)
   MC_AESModes checks (2) = (1) for every chunking of bounded streams on a small instance; the trace
   specifications replay (2) on the real objects with E/D = FIPS-197 AES (AES.tla).

   Parameters: BLK cells per block, cells are 0..CM-1 (CM a power of two, xor = ^^),
   E(k, block), D(k, block) the block cipher under key k (k is opaque here). *)
EXTENDS Naturals, Sequences, Bitwise
CONSTANTS BLK, CM, E(_, _), D(_, _)

Take(s, n) == SubSeq(s, 1, n)
Drop(s, n) == SubSeq(s, n + 1, Len(s))
Zeros(n)   == SubSeq([i \in 1..n |-> 0], 1, n)
Fill(n, v) == SubSeq([i \in 1..n |-> v], 1, n)
\* cell-wise xor over the common prefix (python zip); materialised, see BUILDERS.md
XorSeq(a, b) == LET n == IF Len(a) < Len(b) THEN Len(a) ELSE Len(b)
                IN  SubSeq([i \in 1..n |-> a[i] ^^ b[i]], 1, n)

Modes == {"ecb", "cbc", "cfb", "ofb", "ctr"}
Class(mode) == IF mode \in {"ecb", "cbc"} THEN "block" ELSE IF mode = "cfb" THEN "segment" ELSE "stream"

(* ------------------------------------------------------------------------------------------- *)
(* (1) whole-message functions (SP 800-38A).  P, C: cell sequences; blocks / segments 1-based.  *)
(* ------------------------------------------------------------------------------------------- *)
NBlk(P)      == Len(P) \div BLK
BlkOf(P, j)  == SubSeq(P, BLK * (j - 1) + 1, BLK * j)
SegOf(P, s, j) == SubSeq(P, s * (j - 1) + 1, s * j)

\* 6.1  C_j = CIPH_K(P_j) ;  P_j = CIPH^-1_K(C_j)
RECURSIVE EcbFrom(_, _, _, _, _)
EcbFrom(k, dir, X, j, acc) ==
    IF j > NBlk(X) THEN acc
    ELSE EcbFrom(k, dir, X, j + 1, acc \o (IF dir = "enc" THEN E(k, BlkOf(X, j)) ELSE D(k, BlkOf(X, j))))
EcbEncW(k, P) == EcbFrom(k, "enc", P, 1, <<>>)
EcbDecW(k, C) == EcbFrom(k, "dec", C, 1, <<>>)

\* 6.2  C_1 = CIPH_K(P_1 xor IV), C_j = CIPH_K(P_j xor C_{j-1}) ;  P_j = CIPH^-1_K(C_j) xor C_{j-1}
RECURSIVE CbcEncFromW(_, _, _, _, _)
CbcEncFromW(k, iv, P, j, C) ==
    IF j > NBlk(P) THEN C
    ELSE CbcEncFromW(k, iv, P, j + 1, C \o E(k, XorSeq(BlkOf(P, j), IF j = 1 THEN iv ELSE BlkOf(C, j - 1))))
CbcEncW(k, iv, P) == CbcEncFromW(k, iv, P, 1, <<>>)
RECURSIVE CbcDecFromW(_, _, _, _, _)
CbcDecFromW(k, iv, C, j, P) ==
    IF j > NBlk(C) THEN P
    ELSE CbcDecFromW(k, iv, C, j + 1, P \o XorSeq(D(k, BlkOf(C, j)), IF j = 1 THEN iv ELSE BlkOf(C, j - 1)))
CbcDecW(k, iv, C) == CbcDecFromW(k, iv, C, 1, <<>>)

\* 6.3  I_1 = IV, I_j = LSB_{b-s}(I_{j-1}) | C#_{j-1}, O_j = CIPH_K(I_j), C#_j = P#_j xor MSB_s(O_j).
\* Unfolded: I_j is the last BLK cells of  IV | C#_1 | .. | C#_{j-1}.
CfbIn(iv, C, s, j) == SubSeq(iv \o C, s * (j - 1) + 1, s * (j - 1) + BLK)
RECURSIVE CfbEncFromW(_, _, _, _, _, _)
CfbEncFromW(k, iv, s, P, j, C) ==
    IF j > Len(P) \div s THEN C
    ELSE CfbEncFromW(k, iv, s, P, j + 1, C \o XorSeq(SegOf(P, s, j), Take(E(k, CfbIn(iv, C, s, j)), s)))
CfbEncW(k, iv, s, P) == CfbEncFromW(k, iv, s, P, 1, <<>>)
RECURSIVE CfbDecFromW(_, _, _, _, _, _)
CfbDecFromW(k, iv, s, C, j, P) ==
    IF j > Len(C) \div s THEN P
    ELSE CfbDecFromW(k, iv, s, C, j + 1, P \o XorSeq(SegOf(C, s, j), Take(E(k, CfbIn(iv, C, s, j)), s)))
CfbDecW(k, iv, s, C) == CfbDecFromW(k, iv, s, C, 1, <<>>)

\* 6.4  I_1 = IV, O_j = CIPH_K(I_j), I_j = O_{j-1}, C_j = P_j xor O_j, C*_n = P*_n xor MSB_u(O_n)
RECURSIVE OfbKeyStream(_, _, _, _)
OfbKeyStream(k, prev, n, acc) == IF n = 0 THEN acc ELSE LET o == E(k, prev) IN OfbKeyStream(k, o, n - 1, acc \o o)
OfbW(k, iv, X) == XorSeq(X, OfbKeyStream(k, iv, (Len(X) + BLK - 1) \div BLK, <<>>))

\* 6.5  O_j = CIPH_K(T_j), C_j = P_j xor O_j, last block truncated;  T_j = T_1 + (j-1) mod CM^BLK
\* (big-endian multi-precision addition of a small natural; the carry out of the first cell is dropped)
RECURSIVE AddAt(_, _, _)
AddAt(T, i, carry) == IF i = 0 \/ carry = 0 THEN T
                      ELSE LET v == T[i] + carry IN AddAt([T EXCEPT ![i] = v % CM], i - 1, v \div CM)
CtrPlus(T, n) == AddAt(T, Len(T), n)
RECURSIVE CtrKeyStream(_, _, _, _, _)
CtrKeyStream(k, T1, j, n, acc) == IF j > n THEN acc ELSE CtrKeyStream(k, T1, j + 1, n, acc \o E(k, CtrPlus(T1, j - 1)))
CtrW(k, T1, X) == XorSeq(X, CtrKeyStream(k, T1, 1, (Len(X) + BLK - 1) \div BLK, <<>>))

\* m: [mode, k, iv, seg] (iv = T_1 for ctr, unused for ecb)
Whole(m, dir, X) ==
    CASE m.mode = "ecb" -> IF dir = "enc" THEN EcbEncW(m.k, X) ELSE EcbDecW(m.k, X)
      [] m.mode = "cbc" -> IF dir = "enc" THEN CbcEncW(m.k, m.iv, X) ELSE CbcDecW(m.k, m.iv, X)
      [] m.mode = "cfb" -> IF dir = "enc" THEN CfbEncW(m.k, m.iv, m.seg, X) ELSE CfbDecW(m.k, m.iv, m.seg, X)
      [] m.mode = "ofb" -> OfbW(m.k, m.iv, X)
      [] m.mode = "ctr" -> CtrW(m.k, m.iv, X)
\* the message lengths the standard (and a single mode-object call sequence) admits
Granule(m) == IF Class(m.mode) = "block" THEN BLK ELSE IF m.mode = "cfb" THEN m.seg ELSE 1

(* ------------------------------------------------------------------------------------------- *)
(* (2) mode objects: state st = [mode, k, seg, reg, rem];  Call(st, dir, chunk) = [st, out, err] *)
(* ------------------------------------------------------------------------------------------- *)
NewMode(m) == [mode |-> m.mode, k |-> m.k, seg |-> m.seg, reg |-> IF m.mode = "ecb" THEN <<>> ELSE m.iv, rem |-> <<>>]
Ok(st, out) == [st |-> st, out |-> out, err |-> ""]
Raise(st)   == [st |-> st, out |-> <<>>, err |-> "error"]        \* ValueError, state untouched

EcbCall(st, dir, c) ==
    IF Len(c) # BLK THEN Raise(st) ELSE Ok(st, IF dir = "enc" THEN E(st.k, c) ELSE D(st.k, c))

CbcCall(st, dir, c) ==
    IF Len(c) # BLK THEN Raise(st)
    ELSE IF dir = "enc" THEN LET y == E(st.k, XorSeq(c, st.reg)) IN Ok([st EXCEPT !.reg = y], y)
    ELSE Ok([st EXCEPT !.reg = c], XorSeq(D(st.k, c), st.reg))

\* one segment per iteration; the cipher text segment is shifted into the register in both directions
RECURSIVE CfbLoop(_, _, _, _, _, _, _)
CfbLoop(k, seg, dir, c, i, sr, acc) ==
    IF i > Len(c) THEN [reg |-> sr, out |-> acc]
    ELSE LET xs == SubSeq(c, i, i + seg - 1)
             y  == XorSeq(xs, Take(E(k, sr), seg))
             cs == IF dir = "enc" THEN y ELSE xs
         IN  CfbLoop(k, seg, dir, c, i + seg, Drop(sr, Len(cs)) \o cs, acc \o y)
CfbCall(st, dir, c) ==
    IF Len(c) % st.seg # 0 THEN Raise(st)
    ELSE LET r == CfbLoop(st.k, st.seg, dir, c, 1, st.reg, <<>>) IN Ok([st EXCEPT !.reg = r.reg], r.out)

\* one cell per iteration; when the remainder is empty the cells used so far (a whole block, initially the IV)
\* are encrypted to give the next key stream block
RECURSIVE OfbLoop(_, _, _, _, _, _)
OfbLoop(k, c, i, used, rem, acc) ==
    IF i > Len(c) THEN [reg |-> used, rem |-> rem, out |-> acc]
    ELSE LET fresh == rem = <<>>
             r == IF fresh THEN E(k, used) ELSE rem
             u == IF fresh THEN <<>> ELSE used
         IN  OfbLoop(k, c, i + 1, Append(u, Head(r)), Tail(r), Append(acc, c[i] ^^ Head(r)))
OfbCall(st, dir, c) ==
    LET r == OfbLoop(st.k, c, 1, st.reg, st.rem, <<>>) IN Ok([st EXCEPT !.reg = r.reg, !.rem = r.rem], r.out)

\* Counter.increment: from the last cell, +1; a cell reaching CM becomes 0 and carries; no cell left: all zero
RECURSIVE IncAt(_, _)
IncAt(c, i) == IF i = 0 THEN Zeros(Len(c))
               ELSE IF c[i] + 1 < CM THEN [c EXCEPT ![i] = c[i] + 1]
               ELSE IncAt([c EXCEPT ![i] = 0], i - 1)
Inc(c) == IncAt(c, Len(c))
RECURSIVE CtrFill(_, _, _, _)
CtrFill(k, ctr, rem, n) == IF Len(rem) >= n THEN [reg |-> ctr, rem |-> rem] ELSE CtrFill(k, Inc(ctr), rem \o E(k, ctr), n)
CtrCall(st, dir, c) ==
    LET f == CtrFill(st.k, st.reg, st.rem, Len(c))
    IN  Ok([st EXCEPT !.reg = f.reg, !.rem = Drop(f.rem, Len(c))], XorSeq(c, f.rem))

Call(st, dir, c) ==
    CASE st.mode = "ecb" -> EcbCall(st, dir, c)
      [] st.mode = "cbc" -> CbcCall(st, dir, c)
      [] st.mode = "cfb" -> CfbCall(st, dir, c)
      [] st.mode = "ofb" -> OfbCall(st, dir, c)
      [] st.mode = "ctr" -> CtrCall(st, dir, c)
=============================================================================
