----------------------------- MODULE TinyCipher -----------------------------
(* An arbitrary ("uninterpreted") keyed permutation on small blocks, for the bounded model-checking instances:
   cells 0..3, blocks of 2 cells (16 blocks) or 3 cells (64 blocks), two keys.  The tables are fixed random
   permutations (neither involutions nor xor-linear, E # D); the ASSUMEs check that they are permutations
   and that the inverse tables invert them.  Nothing in the checked properties depends on which permutation. *)
EXTENDS Naturals, Sequences
TinyCM == 4
TIdx(b) == IF Len(b) = 2 THEN b[1] * 4 + b[2] ELSE (b[1] * 4 + b[2]) * 4 + b[3]
TBlk(n, len) == IF len = 2 THEN <<n \div 4, n % 4>> ELSE <<n \div 16, (n \div 4) % 4, n % 4>>
TP16_1 == <<3,8,0,1,15,9,13,4,12,7,2,14,11,10,6,5>>
TQ16_1 == <<2,3,10,0,7,15,14,9,1,5,13,12,8,6,11,4>>
TP16_2 == <<9,6,4,7,14,15,5,0,2,12,3,13,11,10,8,1>>
TQ16_2 == <<7,15,8,10,2,6,1,3,14,0,13,12,9,11,4,5>>
TP64_1 == <<23,19,22,43,13,60,39,1,33,54,9,26,21,53,7,38,11,28,35,8,10,20,41,25,30,5,2,31,0,37,12,32,36,24,48,6,42,17,40,46,4,3,34,50,58,16,56,18,47,55,62,52,63,49,59,29,15,27,57,51,61,45,44,14>>
TQ64_1 == <<28,7,26,41,40,25,35,14,19,10,20,16,30,4,63,56,45,37,47,1,21,12,2,0,33,23,11,57,17,55,24,27,31,8,42,18,32,29,15,6,38,22,36,3,62,61,39,48,34,53,43,59,51,13,9,49,46,58,44,54,5,60,50,52>>
TP64_2 == <<49,27,39,50,17,24,30,43,38,35,25,12,52,3,18,4,19,6,21,58,0,56,62,48,7,40,51,42,45,13,53,20,47,8,36,41,63,23,14,16,10,2,11,57,46,55,15,44,9,33,5,37,54,32,26,60,28,59,22,61,34,1,29,31>>
TQ64_2 == <<20,61,41,13,15,50,17,24,33,48,40,42,11,29,38,46,39,4,14,16,31,18,58,37,5,10,54,1,56,62,6,63,53,49,60,9,34,51,8,2,25,35,27,7,47,28,44,32,23,0,3,26,12,30,52,45,21,43,19,57,55,59,22,36>>
TPerm(k, len) == IF len = 2 THEN (IF k = 1 THEN TP16_1 ELSE TP16_2) ELSE (IF k = 1 THEN TP64_1 ELSE TP64_2)
TInv(k, len)  == IF len = 2 THEN (IF k = 1 THEN TQ16_1 ELSE TQ16_2) ELSE (IF k = 1 THEN TQ64_1 ELSE TQ64_2)
TinyE(k, b) == TBlk(TPerm(k, Len(b))[TIdx(b) + 1], Len(b))
TinyD(k, b) == TBlk(TInv(k, Len(b))[TIdx(b) + 1], Len(b))
TinyKeys == {1, 2}
TinyBlocks(len) == IF len = 2 THEN {<<a, b>> : a \in 0..3, b \in 0..3} ELSE {<<a, b, c>> : a \in 0..3, b \in 0..3, c \in 0..3}
ASSUME \A len \in {2, 3} : \A k \in TinyKeys : \A x \in TinyBlocks(len) :
          /\ TinyE(k, x) \in TinyBlocks(len) /\ TinyD(k, TinyE(k, x)) = x /\ TinyE(k, TinyD(k, x)) = x
ASSUME \A len \in {2, 3} : (\E x \in TinyBlocks(len) : TinyE(1, x) # TinyE(2, x)) /\ (\E x \in TinyBlocks(len) : TinyE(1, x) # TinyD(1, x))
=============================================================================
