--------------------------- MODULE Trace_Bf2Import ---------------------------
(* C->S for C13: the driver prints BF2 text from a generated layout, runs the real Bf3File.bf2_import /
   bf2_unpack_payload / bf2_convert_payload and records the layout description (items with symbolic extents)
   together with the projected result.  TLC computes the expected components / comments / rejection from the
   layout with the machine of Bf2Import (deviation switches OFF = what the property demands) and judges the event.
   A rejected event that is explained by one of the code's deviations is named after it.
     import   items, enforce(0/1), kind("ok"/"raise"), why, comps [{desc, ids}], comments [[key, value]], bad(0/1)
     unpack   runs, kind, blocks [[adr, len, ids]], bad
     convert  runs, fmt, kind, ids, blocks, bad
     parse    text, kind, objs [{k, name, val, params, lines}]      (character-level grammar of parse_bf2_file)
   bad = 1: some byte of a returned payload is not the byte the attributed source line carries there.
     names    fwd [[name, id]] = items of the library's HWCID_MAP, rev [[id, name]] = items of REV_HWCID_MAP
   Component kinds and filter terms are named by the PINNED table HwcidNames (spec/HwcidNames.tla), never by the
   library's own reverse map; the "names" event compares the library's tables with it.                       *)
EXTENDS Bf2Import, HwcidNames, Json, IOUtils
Trace == ndJsonDeserialize(IOEnv.TRACE_FILE)
Names == HwcidNames
\* ev.xn: names the library has for ids OUTSIDE the pinned list (upstream additions): used for those ids only
NamesOf(ev) == IF "xn" \in DOMAIN ev THEN HwcidNames \o ev.xn ELSE HwcidNames
XnOk(ev) == "xn" \in DOMAIN ev => \A j \in 1..Len(ev.xn) : \A q \in 1..Len(HwcidNames) : HwcidNames[q][1] # ev.xn[j][1]
VARIABLE i

Dev(d, r) == [drop |-> d, retain |-> r]
ImpMatch(ev, e) == IF e.err # "" THEN ev.kind = "raise"
                   ELSE /\ ev.kind = "ok"
                        /\ ev.comps = e.comps
                        /\ Len(ev.comments) = Cardinality(e.comments)
                        /\ {ev.comments[j] : j \in 1..Len(ev.comments)} = e.comments
\* why: the driver's coarse reading of the exception (class / message); compared for information only ("soft:" clauses
\* are statistics, not violations: the property demands a rejection, not a particular message)
ReasonOk(why, err) == why = err \/ (why = "invalid-instruction" /\ err \in {"invalid-crc", "invalid-versiondesc", "invalid-firmware-comment"})
ImportVerdict(ev) ==
    IF ev.bad = 1 THEN "payload-bytes-not-attributable"
    ELSE IF ~XnOk(ev) THEN "extra-name-for-a-documented-id"
    ELSE LET e0 == Import(ev.items, ev.enforce = 1, NamesOf(ev), Dev(FALSE, FALSE)) IN
         IF ImpMatch(ev, e0) THEN (IF ev.kind = "raise" /\ ev.why # "" /\ ~ReasonOk(ev.why, e0.err)
                                      /\ \A d \in BOOLEAN, t \in BOOLEAN : ~ReasonOk(ev.why, Import(ev.items, ev.enforce = 1, NamesOf(ev), Dev(d, t)).err)
                                   THEN "soft:reject-reason-differs:" \o e0.err ELSE "ok")
         ELSE IF ImpMatch(ev, Import(ev.items, ev.enforce = 1, NamesOf(ev), Dev(TRUE, FALSE))) THEN "unpack-drops-first-line-after-gap"
         ELSE IF ImpMatch(ev, Import(ev.items, ev.enforce = 1, NamesOf(ev), Dev(FALSE, TRUE))) THEN "skipped-section-data-retained"
         ELSE IF ImpMatch(ev, Import(ev.items, ev.enforce = 1, NamesOf(ev), Dev(TRUE, TRUE))) THEN "drop-after-gap+skipped-data-retained"
         ELSE IF e0.err # "" THEN "accepted-but-must-reject:" \o e0.err
         ELSE IF ev.kind = "raise" THEN "rejected-but-convertible"
         ELSE IF ev.comps # e0.comps THEN "components-differ"
         ELSE "comments-differ"

BlockTuples(b) == Mat([j \in 1..Len(b) |-> <<b[j].adr, b[j].len, b[j].ids>>], Len(b))
UnpackVerdict(ev) ==
    IF ev.bad = 1 THEN "payload-bytes-not-attributable"
    ELSE IF ev.kind # "ok" THEN "unpack-raised"
    ELSE IF ev.blocks = BlockTuples(Unpack(ev.runs, FALSE)) THEN "ok"
    ELSE IF ev.blocks = BlockTuples(Unpack(ev.runs, TRUE)) THEN "unpack-drops-first-line-after-gap"
    ELSE "blocks-differ"
ConvMatch(ev, c) == IF c.err # "" THEN ev.kind = "raise"
                    ELSE ev.kind = "ok" /\ ev.ids = c.ids /\ ev.blocks = BlockTuples(c.blocks)
ConvertVerdict(ev) ==
    IF ev.bad = 1 THEN "payload-bytes-not-attributable"
    ELSE LET c0 == Convert(ev.runs, ev.fmt, FALSE) IN
         IF ConvMatch(ev, c0) THEN "ok"
         ELSE IF ConvMatch(ev, Convert(ev.runs, ev.fmt, TRUE)) THEN "unpack-drops-first-line-after-gap"
         ELSE IF c0.err # "" THEN "accepted-but-must-reject:" \o c0.err
         ELSE IF ev.kind = "raise" THEN "rejected-but-convertible"
         ELSE "content-differs"

\* parse: text (characters of a small BF2 file), kind, objs = list(parse_bf2_file(text)) projected
ParseVerdict(ev) ==
    LET p == ParseText(ev.text) IN
    IF ~p.ok THEN (IF ev.kind = "raise" THEN "ok" ELSE "accepted-malformed-text")
    ELSE IF ev.kind # "ok" THEN "rejected-wellformed-text"
    ELSE IF ev.objs = p.objs THEN "ok" ELSE "parsed-objects-differ"

\* the library's hardware-id tables: one id per name, one name per id, and exactly the pinned list
NamesVerdict(ev) ==
    LET P == {<<HwcidNames[j][1], HwcidNames[j][2]>> : j \in 1..Len(HwcidNames)}
        F == {<<ev.fwd[j][2], ev.fwd[j][1]>> : j \in 1..Len(ev.fwd)}
        R == {<<ev.rev[j][1], ev.rev[j][2]>> : j \in 1..Len(ev.rev)}
    IN  IF \E a \in 1..Len(ev.fwd), b \in 1..Len(ev.fwd) : a # b /\ ev.fwd[a][2] = ev.fwd[b][2] THEN "hwcid-map-two-names-for-one-id"
        ELSE IF \E a \in 1..Len(ev.fwd), b \in 1..Len(ev.fwd) : a # b /\ ev.fwd[a][1] = ev.fwd[b][1] THEN "hwcid-map-name-twice"
        \* every documented id keeps its documented name (additions for other ids are not an alarm); the reverse map is the inverse
        ELSE IF ~(P \subseteq F) THEN "hwcid-map-differs-from-pinned-list"
        ELSE IF R # F \/ Len(ev.rev) # Cardinality(F) THEN "rev-hwcid-map-differs-from-pinned-list"
        ELSE "ok"

Verdict(ev) == IF ev.op = "import" THEN ImportVerdict(ev)
               ELSE IF ev.op = "names" THEN NamesVerdict(ev)
               ELSE IF ev.op = "parse" THEN ParseVerdict(ev)
               ELSE IF ev.op = "unpack" THEN UnpackVerdict(ev)
               ELSE IF ev.op = "convert" THEN ConvertVerdict(ev)
               ELSE "unknown-op"
Init == i = 1
Next == /\ i <= Len(Trace)
        /\ LET v == Verdict(Trace[i]) IN IF v = "ok" THEN TRUE ELSE PrintT(<<"REJ", Trace[i].tid, v, "">>)
        /\ i' = i + 1
        /\ IF i = Len(Trace) THEN PrintT(<<"DONE", i>>) ELSE TRUE
=============================================================================
