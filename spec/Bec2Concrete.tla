----------------------------- MODULE Bec2Concrete -----------------------------
(* BEC2 on real bytes: AES auth-block container (C08), ECC block (C09), header TLV structure,
   reader loop with common-session-key check and unknown-block pass-through (C02, C07).
   SHA-256 digests and ECDH shared secrets are supplied in the events by oracles (hashlib, OpenSSL):
   the spec computes the framing, the CRC and the AES layer. *)
EXTENDS Bf3Concrete, CRC16

Zeros(n) == SubSeq([j \in 1..n |-> 0], 1, n)
\* ---------------------------------------------------------------- AES container (C08)
FramePadLen(n) == ((16 - ((2 + 1 + n + 2) % 16)) % 16) + 1
Frame(p) == <<66, Len(p) + 2>> \o Zeros(FramePadLen(Len(p))) \o p \o CrcBytes(p)
Wrap(key, p) == CbcEnc(key, Zero16, Frame(p))
UErr(e) == [ok |-> FALSE, err |-> e, payload |-> <<>>]
\* structural view of a decrypted frame d (what the container documentation promises)
FrameOK(d, p) == /\ Len(d) % 16 = 0 /\ Len(d) > 0 /\ d[1] = 66 /\ d[2] = Len(p) + 2
                 /\ LET pad == Len(d) - 2 - Len(p) - 2 IN
                      /\ pad \in 1..16 /\ SubSeq(d, 3, 2 + pad) = Zeros(pad)
                      /\ SubSeq(d, 3 + pad, 2 + pad + Len(p)) = p
                      /\ SubSeq(d, Len(d) - 1, Len(d)) = CrcBytes(p)
\* the parser of the library: marker, length byte, payload located from the END, CRC
Unwrap(key, c) ==
    IF Len(c) = 0 \/ Len(c) % 16 # 0 THEN UErr("length")
    ELSE LET d == CbcDec(key, Zero16, c)  n == d[2] IN
         IF d[1] # 66 THEN UErr("marker")
         ELSE IF n < 2 \/ n > Len(c) THEN UErr("length-byte")
         ELSE LET p == SubSeq(d, Len(c) - n + 1, Len(c) - 2)
                  crc == SubSeq(d, Len(c) - 1, Len(c)) IN
              IF CrcBytes(p) # crc THEN UErr("crc") ELSE [ok |-> TRUE, err |-> "", payload |-> p]
\* customer key: overwrite the 10-byte slot before wrapping; verify and blank after unwrapping
PutCk(p, ck, pos) == SubSeq(p, 1, pos) \o ck \o SubSeq(p, pos + 11, Len(p))
CustWrapPlain(p, ck, pos) == IF Len(ck) = 0 THEN p ELSE PutCk(p, ck, pos)
CustUnwrap(key, ck, pos, c) ==
    LET u == Unwrap(key, c) IN
    IF ~u.ok \/ Len(ck) = 0 THEN u
    ELSE IF pos + 10 > Len(u.payload) \/ SubSeq(u.payload, pos + 1, pos + 10) # ck THEN UErr("customer-key")
    ELSE [ok |-> TRUE, err |-> "", payload |-> PutCk(u.payload, Zeros(10), pos)]

\* ---------------------------------------------------------------- auth blocks
\* decryptor d: [kind |-> "cust", key, ck, pos] | [kind |-> "code", code, key] | [kind |-> "ecc", sel, priv (0/1)]
\* block b: [tag, raw, ecckey]  (ecckey: SHA-256(ECDH x)[:16] for this block under the matching private decryptor, from the oracle; <<>> if none)
FirstOf(decs, P(_)) == IF \E j \in 1..Len(decs) : P(decs[j])
                       THEN CHOOSE j \in 1..Len(decs) : P(decs[j]) /\ \A q \in 1..(j - 1) : ~P(decs[q]) ELSE 0
BlockRes(kind, key, blk) == [kind |-> kind, key |-> key, blk |-> blk]    \* kind: "ok" | "unknown" | "error:<clause>"
UnpackBlock(b, decs) ==
    IF b.tag = 1 THEN
        LET j == FirstOf(decs, LAMBDA d : d.kind = "cust") IN
        IF j = 0 THEN BlockRes("unknown", <<>>, [tag |-> b.tag, sel |-> 0, version |-> 0, code |-> <<>>, raw |-> b.raw])
        ELSE LET u == CustUnwrap(decs[j].key, decs[j].ck, decs[j].pos, b.raw) IN
             IF ~u.ok THEN BlockRes("error:" \o u.err, <<>>, <<>>)
             ELSE BlockRes("ok", SubSeq(u.payload, IF Len(u.payload) > 16 THEN Len(u.payload) - 15 ELSE 1, Len(u.payload)),
                           [tag |-> 1, sel |-> 0, version |-> 0, code |-> <<>>, raw |-> <<>>])
    ELSE IF b.tag = 2 THEN
        LET j == FirstOf(decs, LAMBDA d : d.kind = "code") IN
        IF j = 0 THEN BlockRes("unknown", <<>>, [tag |-> b.tag, sel |-> 0, version |-> 0, code |-> <<>>, raw |-> b.raw])
        ELSE LET u == Unwrap(decs[j].key, b.raw) IN
             IF ~u.ok THEN BlockRes("error:" \o u.err, <<>>, <<>>)
             ELSE IF Len(u.payload) < 17 THEN BlockRes("error:update-short", <<>>, <<>>)
             ELSE BlockRes("ok", SubSeq(u.payload, 1, 16),
                           [tag |-> 2, sel |-> 0, version |-> u.payload[17], code |-> decs[j].code, raw |-> <<>>])
    ELSE IF b.tag = 3 THEN
        IF Len(b.raw) = 0 THEN BlockRes("error:ecc-empty", <<>>, <<>>)
        ELSE LET sel == b.raw[1]
                 j == FirstOf(decs, LAMBDA d : d.kind = "ecc" /\ d.sel = sel) IN
             IF j = 0 THEN BlockRes("unknown", <<>>, [tag |-> b.tag, sel |-> 0, version |-> 0, code |-> <<>>, raw |-> b.raw])
             \* a matching encryptor that cannot decrypt (public key only) leaves the block unopened, like no decryptor at all
             ELSE IF decs[j].priv = 0 THEN BlockRes("unknown", <<>>, [tag |-> b.tag, sel |-> 0, version |-> 0, code |-> <<>>, raw |-> b.raw])
             ELSE IF Len(b.raw) < 82 \/ b.raw[2] # 4 \/ Len(b.ecckey) # 16 THEN BlockRes("error:ecc-format", <<>>, <<>>)
             ELSE BlockRes("ok", CbcDec(b.ecckey, Zero16, SubSeq(b.raw, 67, 82)),
                           [tag |-> 3, sel |-> sel, version |-> 0, code |-> <<>>, raw |-> <<>>])
    ELSE BlockRes("unknown", <<>>, [tag |-> b.tag, sel |-> 0, version |-> 0, code |-> <<>>, raw |-> b.raw])

\* ---------------------------------------------------------------- header
RECURSIVE PackBlocks(_, _)
PackBlocks(bs, j) == IF j > Len(bs) THEN <<0, 0>> ELSE <<bs[j].tag, Len(bs[j].raw)>> \o bs[j].raw \o PackBlocks(bs, j + 1)
Header(bs) == Bec2Sig \o PackBlocks(bs, 1)
HErr(e) == [ok |-> FALSE, err |-> e, blocks |-> <<>>, off |-> 0]
RECURSIVE SplitFrom(_, _, _)
SplitFrom(bin, p, acc) ==        \* p: 0-based position of the next tag
    IF p + 2 > Len(bin) THEN HErr("header-short")
    ELSE LET tag == bin[p + 1]  n == bin[p + 2] IN
         IF p + 2 + n > Len(bin) THEN HErr("block-short")
         ELSE IF tag = 0 /\ n = 0 THEN [ok |-> TRUE, err |-> "", blocks |-> acc, off |-> p + 2]
         ELSE SplitFrom(bin, p + 2 + n, Append(acc, [tag |-> tag, raw |-> SubSeq(bin, p + 3, p + 2 + n)]))
SplitHeader(bin) == IF Len(bin) < 5 \/ SubSeq(bin, 1, 5) # Bec2Sig THEN HErr("signature") ELSE SplitFrom(bin, 5, <<>>)

\* ---------------------------------------------------------------- reader
RErr(e) == [ok |-> FALSE, err |-> e, key |-> <<>>, blocks |-> <<>>, comps |-> <<>>]
RECURSIVE UnpackAll(_, _, _, _, _, _)
NoKey == <<256>>        \* "no block has yielded a key yet" (an EMPTY key, unwrapped from a crafted empty payload, is a key for the library)
UnpackAll(bs, ecckeys, decs, j, key, acc) ==     \* key = common session key so far (NoKey = none)
    IF j > Len(bs) THEN [ok |-> TRUE, err |-> "", key |-> key, blocks |-> acc]
    ELSE LET r == UnpackBlock([tag |-> bs[j].tag, raw |-> bs[j].raw, ecckey |-> ecckeys[j]], decs) IN
         IF r.kind = "unknown" THEN UnpackAll(bs, ecckeys, decs, j + 1, key, Append(acc, r.blk))
         ELSE IF r.kind # "ok" THEN [ok |-> FALSE, err |-> r.kind, key |-> <<>>, blocks |-> <<>>]
         ELSE IF key # NoKey /\ r.key # key THEN [ok |-> FALSE, err |-> "session-keys-differ", key |-> <<>>, blocks |-> <<>>]
         ELSE UnpackAll(bs, ecckeys, decs, j + 1, r.key, Append(acc, r.blk))
\* the auth_blocks attribute is a dict keyed by tag: a later block with the same tag replaces the earlier one in place
RECURSIVE DictByTag(_, _, _)
DictByTag(bl, j, acc) ==
    IF j > Len(bl) THEN acc
    ELSE IF \E q \in 1..Len(acc) : acc[q].tag = bl[j].tag
         THEN DictByTag(bl, j + 1, SubSeq([q \in 1..Len(acc) |-> IF acc[q].tag = bl[j].tag THEN bl[j] ELSE acc[q]], 1, Len(acc)))
         ELSE DictByTag(bl, j + 1, Append(acc, bl[j]))
ReadBec2(bin, ecckeys, decs, check) ==
    LET h == SplitHeader(bin) IN
    IF ~h.ok THEN RErr(h.err)
    ELSE IF Len(ecckeys) # Len(h.blocks) THEN RErr("oracle-keys-misaligned")
    ELSE LET u == UnpackAll(h.blocks, ecckeys, decs, 1, NoKey, <<>>) IN
         IF ~u.ok THEN RErr(u.err)
         ELSE IF u.key = NoKey THEN RErr("no-decryptable-block")
         \* a block crafted by a key holder around fewer than 16 bytes yields a short "key": refused as soon as the key is USED
         \* (MAC checking, an encrypted component); with MAC checking off and plain components only it is never used
         ELSE IF Len(u.key) # 16 /\ check THEN RErr("session-key-length")
         ELSE IF Len(u.key) # 16 THEN
              LET p == L!Parse(bin, h.off, [j \in 1..16 |-> 0], FALSE) IN
              IF ~p.ok THEN RErr(p.err)
              ELSE IF \E j \in 1..Len(p.comps) : p.comps[j].enc THEN RErr("session-key-length")
              ELSE [ok |-> TRUE, err |-> "", key |-> u.key, blocks |-> DictByTag(u.blocks, 1, <<>>), comps |-> p.comps]
         ELSE LET p == L!Parse(bin, h.off, u.key, check) IN
              IF ~p.ok THEN RErr(p.err)
              ELSE [ok |-> TRUE, err |-> "", key |-> u.key, blocks |-> DictByTag(u.blocks, 1, <<>>), comps |-> p.comps]
=============================================================================
