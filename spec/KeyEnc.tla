------------------------------- MODULE KeyEnc -------------------------------
(* Encodings of elliptic-curve keys on top of DER.tla.

   Point strings (SEC 1 2.3.3 / X9.62) for a field of L octets, by length and prefix:
       raw           X || Y                    2L
       uncompressed  04 || X || Y              2L+1
       hybrid        06|07 || X || Y           2L+1    (06 + parity of Y)
       compressed    02|03 || X                L+1     (02 + parity of Y)

   SubjectPublicKeyInfo (RFC 5480):
       SEQUENCE { SEQUENCE { OID id-ecPublicKey, ECParameters }, BIT STRING (0 unused) point }
   ECParameters: namedCurve OID | explicit SpecifiedECDomain (X9.62):
       SEQUENCE { INTEGER 1, SEQUENCE { OID prime-field, INTEGER p },
                  SEQUENCE { OCTET STRING a, OCTET STRING b, [BIT STRING seed] },
                  OCTET STRING base, INTEGER order, [INTEGER cofactor] }
   ECPrivateKey (RFC 5915, "SEC1", OpenSSL's traditional format):
       SEQUENCE { INTEGER 1, OCTET STRING d, [0] { ECParameters } OPTIONAL, [1] { BIT STRING point } OPTIONAL }
   PKCS#8 OneAsymmetricKey (RFC 5958):
       SEQUENCE { INTEGER version, SEQUENCE { OID id-ecPublicKey, ECParameters },
                  OCTET STRING { ECPrivateKey }, [0] attributes OPTIONAL, [1] publicKey OPTIONAL }
       version = v2(1) if publicKey is present, v1(0) otherwise (RFC 5958 section 2).

   Big integers (p, order, coordinates, scalars) are byte strings here; they are compared,
   never computed with.  PEM armour (RFC 7468) = base64 in lines of 64 characters.

   All parsers are total: ok = FALSE and err = name of the first failing clause. *)
EXTENDS DER

OID_EC_PUBKEY == <<1, 2, 840, 10045, 2, 1>>
OID_PRIME_FIELD == <<1, 2, 840, 10045, 1, 1>>

\* OpenSSL name |-> OID arcs (SEC 2, RFC 5480, RFC 5639), field length L, scalar length n (octets)
CurveTab == [
  prime192v1      |-> [arcs |-> <<1, 2, 840, 10045, 3, 1, 1>>, L |-> 24, n |-> 24],
  secp224r1       |-> [arcs |-> <<1, 3, 132, 0, 33>>, L |-> 28, n |-> 28],
  prime256v1      |-> [arcs |-> <<1, 2, 840, 10045, 3, 1, 7>>, L |-> 32, n |-> 32],
  secp384r1       |-> [arcs |-> <<1, 3, 132, 0, 34>>, L |-> 48, n |-> 48],
  secp521r1       |-> [arcs |-> <<1, 3, 132, 0, 35>>, L |-> 66, n |-> 66],
  secp256k1       |-> [arcs |-> <<1, 3, 132, 0, 10>>, L |-> 32, n |-> 32],
  brainpoolP160r1 |-> [arcs |-> <<1, 3, 36, 3, 3, 2, 8, 1, 1, 1>>, L |-> 20, n |-> 20],
  brainpoolP192r1 |-> [arcs |-> <<1, 3, 36, 3, 3, 2, 8, 1, 1, 3>>, L |-> 24, n |-> 24],
  brainpoolP224r1 |-> [arcs |-> <<1, 3, 36, 3, 3, 2, 8, 1, 1, 5>>, L |-> 28, n |-> 28],
  brainpoolP256r1 |-> [arcs |-> <<1, 3, 36, 3, 3, 2, 8, 1, 1, 7>>, L |-> 32, n |-> 32],
  brainpoolP320r1 |-> [arcs |-> <<1, 3, 36, 3, 3, 2, 8, 1, 1, 9>>, L |-> 40, n |-> 40],
  brainpoolP384r1 |-> [arcs |-> <<1, 3, 36, 3, 3, 2, 8, 1, 1, 11>>, L |-> 48, n |-> 48],
  brainpoolP512r1 |-> [arcs |-> <<1, 3, 36, 3, 3, 2, 8, 1, 1, 13>>, L |-> 64, n |-> 64],
  secp112r1       |-> [arcs |-> <<1, 3, 132, 0, 6>>, L |-> 14, n |-> 14],
  secp112r2       |-> [arcs |-> <<1, 3, 132, 0, 7>>, L |-> 14, n |-> 14],
  secp128r1       |-> [arcs |-> <<1, 3, 132, 0, 28>>, L |-> 16, n |-> 16],
  secp160r1       |-> [arcs |-> <<1, 3, 132, 0, 8>>, L |-> 20, n |-> 21]]
CurveNames == DOMAIN CurveTab
P256 == <<1, 2, 840, 10045, 3, 1, 7>>

\* the constant bec2format/crypto.py prepends to a raw 64-byte P-256 public key
\* 30 59 30 13 06 07 2A 86 48 CE 3D 02 01 06 08 2A 86 48 CE 3D 03 01 07 03 42 00 04
BEC2_HEADER == <<48, 89, 48, 19, 6, 7, 42, 134, 72, 206, 61, 2, 1, 6, 8, 42, 134, 72, 206, 61, 3, 1, 7, 3, 66, 0, 4>>

\* ---------------------------------------------------------------- point strings
PointForm(pt, L) ==
    LET k == Len(pt) IN
    IF k = 2 * L THEN "raw"
    ELSE IF k = 2 * L + 1 /\ pt[1] = 4 THEN "uncompressed"
    ELSE IF k = 2 * L + 1 /\ pt[1] \in {6, 7} THEN "hybrid"
    ELSE IF k = L + 1 /\ pt[1] \in {2, 3} THEN "compressed"
    ELSE "bad"

\* raw = X || Y
EncodePoint(form, raw) ==
    LET L == Len(raw) \div 2
        par == raw[2 * L] % 2
    IN  IF form = "raw" THEN raw
        ELSE IF form = "uncompressed" THEN <<4>> \o raw
        ELSE IF form = "hybrid" THEN <<6 + par>> \o raw
        ELSE <<2 + par>> \o SubSeq(raw, 1, L)

RECURSIVE Zeros(_)
Zeros(k) == IF k <= 0 THEN <<>> ELSE <<0>> \o Zeros(k - 1)
LeftPad(b, n) == Zeros(n - Len(b)) \o b

\* ---------------------------------------------------------------- encoders (named curve)
AlgId(params) == EncSeq(<<EncOid(OID_EC_PUBKEY), params>>)
EncodeSPKIParams(params, point) == EncSeq(<<AlgId(params), EncBits(0, point)>>)
EncodeSPKI(curveOid, point) == EncodeSPKIParams(EncOid(curveOid), point)
\* params = <<>>: no [0] element
EncodeSEC1(priv, params, point) ==
    EncSeq(<<EncSmallInt(1), EncOctets(priv)>>
           \o (IF params = <<>> THEN <<>> ELSE <<EncCtx(0, params)>>)
           \o <<EncCtx(1, EncBits(0, point))>>)
EncodePKCS8(version, params, priv, point) ==
    EncSeq(<<EncSmallInt(version), AlgId(params), EncOctets(EncodeSEC1(priv, <<>>, point))>>)

\* ---------------------------------------------------------------- parsers
ParErr(e) == [ok |-> FALSE, err |-> e, cpe |-> "", oid |-> <<>>, L |-> 0]

ParseExplicit(s, t) ==
    LET v  == Tlv(s, t.cs, t.ce)
        f  == Tlv(s, v.nx, t.ce)
        fo == Tlv(s, f.cs, f.ce)
        fp == Tlv(s, fo.nx, f.ce)
        c  == Tlv(s, f.nx, t.ce)
        ca == Tlv(s, c.cs, c.ce)
        cb == Tlv(s, ca.nx, c.ce)
        sd == Tlv(s, cb.nx, c.ce)
        g  == Tlv(s, c.nx, t.ce)
        n  == Tlv(s, g.nx, t.ce)
        h  == Tlv(s, n.nx, t.ce)
        L  == CLen(ca)
    IN
    IF ~(v.ok /\ v.tag = T_INT /\ IntIsSmall(s, v, 1)) THEN ParErr("ecparams-version")
    ELSE IF ~(f.ok /\ f.tag = T_SEQ) THEN ParErr("ecparams-fieldid")
    ELSE IF ~(fo.ok /\ fo.tag = T_OID /\ Content(s, fo) = OidBody(OID_PRIME_FIELD)) THEN ParErr("ecparams-fieldtype")
    ELSE IF ~(fp.ok /\ fp.tag = T_INT /\ IntNonNeg(s, fp.cs, fp.ce) /\ fp.nx = f.ce + 1) THEN ParErr("ecparams-prime")
    ELSE IF ~(c.ok /\ c.tag = T_SEQ) THEN ParErr("ecparams-curve")
    ELSE IF ~(ca.ok /\ ca.tag = T_OCTETS) THEN ParErr("ecparams-a")
    ELSE IF ~(cb.ok /\ cb.tag = T_OCTETS) THEN ParErr("ecparams-b")
    ELSE IF ~(L = Len(IntMag(s, fp.cs, fp.ce)) /\ CLen(cb) = L) THEN ParErr("ecparams-field-element-length")
    ELSE IF cb.nx # c.ce + 1 /\ ~(sd.ok /\ sd.tag = T_BITS /\ BitsOk(s, sd.cs, sd.ce) /\ sd.nx = c.ce + 1) THEN ParErr("ecparams-seed")
    ELSE IF ~(g.ok /\ g.tag = T_OCTETS) THEN ParErr("ecparams-base")
    ELSE IF PointForm(Content(s, g), L) \notin {"uncompressed", "compressed", "hybrid"} THEN ParErr("ecparams-base-form")
    ELSE IF ~(n.ok /\ n.tag = T_INT /\ IntNonNeg(s, n.cs, n.ce)) THEN ParErr("ecparams-order")
    ELSE IF n.nx # t.ce + 1 /\ ~(h.ok /\ h.tag = T_INT /\ IntNonNeg(s, h.cs, h.ce) /\ h.nx = t.ce + 1) THEN ParErr("ecparams-cofactor")
    ELSE [ok |-> TRUE, err |-> "", cpe |-> "explicit", oid |-> <<>>, L |-> L]

\* ECParameters occupying exactly s[p..hi]
ParseParams(s, p, hi) ==
    LET t == Tlv(s, p, hi) IN
    IF ~t.ok THEN ParErr(t.err)
    ELSE IF t.nx # hi + 1 THEN ParErr("params-trailing-data")
    ELSE IF t.tag = T_OID THEN
        IF OidOk(s, t.cs, t.ce) THEN [ok |-> TRUE, err |-> "", cpe |-> "named", oid |-> Content(s, t), L |-> 0]
        ELSE ParErr("params-oid")
    ELSE IF t.tag = T_SEQ THEN ParseExplicit(s, t)
    ELSE ParErr("params-tag")

KeyErr(e) == [ok |-> FALSE, err |-> e, cpe |-> "", oid |-> <<>>, L |-> 0, priv |-> <<>>, point |-> <<>>, ver |-> 0, vpos |-> 0]

\* AlgorithmIdentifier { id-ecPublicKey, ECParameters } as the TLV a
ParseAlg(s, a) ==
    LET o == Tlv(s, a.cs, a.ce) IN
    IF ~(a.ok /\ a.tag = T_SEQ) THEN ParErr("alg-sequence")
    ELSE IF ~(o.ok /\ o.tag = T_OID /\ Content(s, o) = OidBody(OID_EC_PUBKEY)) THEN ParErr("alg-oid")
    ELSE ParseParams(s, o.nx, a.ce)

\* BIT STRING TLV b holding a point string (0 unused bits)
BitsPointOk(s, b) == b.ok /\ b.tag = T_BITS /\ CLen(b) >= 1 /\ s[b.cs] = 0
BitsPoint(s, b) == SubSeq(s, b.cs + 1, b.ce)

ParseSPKI(s) ==
    LET top == Tlv(s, 1, Len(s))
        a   == Tlv(s, top.cs, top.ce)
        P   == ParseAlg(s, a)
        b   == Tlv(s, a.nx, top.ce)
    IN
    IF ~top.ok THEN KeyErr(top.err)
    ELSE IF top.tag # T_SEQ THEN KeyErr("spki-sequence")
    ELSE IF top.nx # Len(s) + 1 THEN KeyErr("trailing-data")
    ELSE IF ~P.ok THEN KeyErr(P.err)
    ELSE IF ~BitsPointOk(s, b) THEN KeyErr("spki-bitstring")
    ELSE IF b.nx # top.ce + 1 THEN KeyErr("spki-trailing-data")
    ELSE [ok |-> TRUE, err |-> "", cpe |-> P.cpe, oid |-> P.oid, L |-> P.L, priv |-> <<>>,
          point |-> BitsPoint(s, b), ver |-> 0, vpos |-> 0]

\* ECPrivateKey occupying exactly s[lo..hi]
ParseSEC1(s, lo, hi) ==
    LET top == Tlv(s, lo, hi)
        v   == Tlv(s, top.cs, top.ce)
        d   == Tlv(s, v.nx, top.ce)
        x1  == Tlv(s, d.nx, top.ce)                       \* [0] or [1] or absent
        has0 == d.nx <= top.ce /\ x1.ok /\ x1.tag = T_CTX0
        P   == IF has0 THEN ParseParams(s, x1.cs, x1.ce) ELSE [ok |-> TRUE, err |-> "", cpe |-> "none", oid |-> <<>>, L |-> 0]
        p1  == IF has0 THEN x1.nx ELSE d.nx               \* where [1] would start
        x2  == Tlv(s, p1, top.ce)
        has1 == p1 <= top.ce
        b   == Tlv(s, x2.cs, x2.ce)
    IN
    IF ~top.ok THEN KeyErr(top.err)
    ELSE IF top.tag # T_SEQ THEN KeyErr("sec1-sequence")
    ELSE IF top.nx # hi + 1 THEN KeyErr("trailing-data")
    ELSE IF ~(v.ok /\ v.tag = T_INT /\ IntIsSmall(s, v, 1)) THEN KeyErr("sec1-version")
    ELSE IF ~(d.ok /\ d.tag = T_OCTETS) THEN KeyErr("sec1-private-key")
    ELSE IF d.nx <= top.ce /\ ~x1.ok THEN KeyErr(x1.err)
    ELSE IF ~P.ok THEN KeyErr(P.err)
    ELSE IF has1 /\ ~(x2.ok /\ x2.tag = T_CTX1) THEN KeyErr("sec1-optional-element")
    ELSE IF has1 /\ x2.nx # top.ce + 1 THEN KeyErr("sec1-trailing-data")
    ELSE IF has1 /\ ~(BitsPointOk(s, b) /\ b.nx = x2.ce + 1) THEN KeyErr("sec1-public-key")
    ELSE [ok |-> TRUE, err |-> "", cpe |-> P.cpe, oid |-> P.oid, L |-> P.L, priv |-> Content(s, d),
          point |-> IF has1 THEN BitsPoint(s, b) ELSE <<>>, ver |-> 1, vpos |-> v.cs]

\* OneAsymmetricKey; vpos = index of the version octet
ParsePKCS8(s) ==
    LET top == Tlv(s, 1, Len(s))
        v   == Tlv(s, top.cs, top.ce)
        a   == Tlv(s, v.nx, top.ce)
        P   == ParseAlg(s, a)
        k   == Tlv(s, a.nx, top.ce)
        K   == ParseSEC1(s, k.cs, k.ce)
        x1  == Tlv(s, k.nx, top.ce)
        hasA == k.nx <= top.ce /\ x1.ok /\ x1.tag = T_CTX0
        p1  == IF hasA THEN x1.nx ELSE k.nx
        x2  == Tlv(s, p1, top.ce)
        hasP == p1 <= top.ce
    IN
    IF ~top.ok THEN KeyErr(top.err)
    ELSE IF top.tag # T_SEQ THEN KeyErr("pkcs8-sequence")
    ELSE IF top.nx # Len(s) + 1 THEN KeyErr("trailing-data")
    ELSE IF ~(v.ok /\ v.tag = T_INT /\ CLen(v) = 1 /\ s[v.cs] \in {0, 1}) THEN KeyErr("pkcs8-version-field")
    ELSE IF ~P.ok THEN KeyErr(P.err)
    ELSE IF ~(k.ok /\ k.tag = T_OCTETS) THEN KeyErr("pkcs8-private-key")
    ELSE IF ~K.ok THEN KeyErr(K.err)
    ELSE IF K.cpe # "none" /\ ~(K.cpe = P.cpe /\ K.oid = P.oid) THEN KeyErr("pkcs8-inner-params-differ")
    ELSE IF k.nx <= top.ce /\ ~x1.ok THEN KeyErr(x1.err)
    ELSE IF hasP /\ ~(x2.ok /\ x2.tag = T_CTX1 /\ x2.nx = top.ce + 1) THEN KeyErr("pkcs8-optional-element")
    ELSE [ok |-> TRUE, err |-> "", cpe |-> P.cpe, oid |-> P.oid, L |-> P.L, priv |-> K.priv,
          point |-> K.point, ver |-> s[v.cs], vpos |-> v.cs]
\* RFC 5958: v2(1) exactly when the top-level publicKey is present
PKCS8HasPublicKey(s) ==
    LET top == Tlv(s, 1, Len(s))
        v   == Tlv(s, top.cs, top.ce)
        a   == Tlv(s, v.nx, top.ce)
        k   == Tlv(s, a.nx, top.ce)
        x1  == Tlv(s, k.nx, top.ce)
        p1  == IF k.nx <= top.ce /\ x1.tag = T_CTX0 THEN x1.nx ELSE k.nx
    IN  p1 <= top.ce

\* ---------------------------------------------------------------- PEM armour
B64Char(v) == IF v < 26 THEN 65 + v ELSE IF v < 52 THEN 71 + v ELSE IF v < 62 THEN v - 4 ELSE IF v = 62 THEN 43 ELSE 47
B64At(d, n, i) ==                         \* i-th output character, 1-based
    LET q  == (i - 1) \div 4
        r  == (i - 1) % 4
        b0 == d[3 * q + 1]
        b1 == IF 3 * q + 2 <= n THEN d[3 * q + 2] ELSE 0
        b2 == IF 3 * q + 3 <= n THEN d[3 * q + 3] ELSE 0
    IN  IF r = 0 THEN B64Char(b0 \div 4)
        ELSE IF r = 1 THEN B64Char((b0 % 4) * 16 + (b1 \div 16))
        ELSE IF r = 2 THEN (IF 3 * q + 2 > n THEN 61 ELSE B64Char((b1 % 16) * 4 + (b2 \div 64)))
        ELSE (IF 3 * q + 3 > n THEN 61 ELSE B64Char(b2 % 64))
Base64(d) == LET n == Len(d)
                 m == 4 * ((n + 2) \div 3)
             IN  IF m = 0 THEN <<>> ELSE SubSeq([i \in 1..m |-> B64At(d, n, i)], 1, m)
\* lines of 64 characters, each terminated by LF
Wrap64(t) == LET m == Len(t)
                 lines == (m + 63) \div 64
                 tot == m + lines
             IN  IF m = 0 THEN <<>>
                 ELSE SubSeq([j \in 1..tot |-> IF j = tot \/ ((j - 1) % 65) = 64 THEN 10
                                               ELSE t[((j - 1) \div 65) * 64 + ((j - 1) % 65) + 1]], 1, tot)
DASH5 == <<45, 45, 45, 45, 45>>
BEGIN_ == <<66, 69, 71, 73, 78, 32>>
END_ == <<69, 78, 68, 32>>
PemLabel == [spki  |-> <<80, 85, 66, 76, 73, 67, 32, 75, 69, 89>>,
             sec1  |-> <<69, 67, 32, 80, 82, 73, 86, 65, 84, 69, 32, 75, 69, 89>>,
             pkcs8 |-> <<80, 82, 73, 86, 65, 84, 69, 32, 75, 69, 89>>,
             ecparams |-> <<69, 67, 32, 80, 65, 82, 65, 77, 69, 84, 69, 82, 83>>]
EncodePEM(kind, der) ==
    DASH5 \o BEGIN_ \o PemLabel[kind] \o DASH5 \o <<10>> \o Wrap64(Base64(der))
    \o DASH5 \o END_ \o PemLabel[kind] \o DASH5 \o <<10>>

\* Text representations of one PEM file (RFC 7468 section 2, "lax" parsing): line ends LF or CRLF, blank or
\* white-space lines before / between / after, white space at line ends, final line end present or not, are
\* the same file: two texts are representations of each other iff they agree after all white space
\* (HT LF CR SP) is removed.
IsWs(c) == c \in {9, 10, 13, 32}
Squash(t) == SelectSeq(t, LAMBDA c : ~IsWs(c))
SameText(a, b) == Squash(a) = Squash(b)
=============================================================================
