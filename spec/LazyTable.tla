------------------------------ MODULE LazyTable ------------------------------
(* Shared curve objects of ecdsa/ellipticcurve.py (class PointJacobi), C20.

   Builder thread A = the statements (source lines) of
       _maybe_precompute():  a LOCAL list `precompute` grows entry by entry; ONE final
                             assignment `self.__precompute = precompute` publishes it
       scale():              x, y, z = self.__coords (one read of the triple); local
                             arithmetic; ONE assignment `self.__coords = (x, y, 1)`
   Reader thread B = complete operations on the same object, at any point between two
   statements of A:  k*G through the table (B first runs its own, complete,
   _maybe_precompute), equality / x() / y() (one read of the triple), k*Q on a point
   that is not a generator (B runs its own complete scale()).

   Abstraction: table entry j stands for (2^(j-1))G, a correct table is <<1, .., N>>,
   a wrong entry is 0.  The coordinate triple is Old (Jacobian, z # 1) or New (affine,
   z = 1); both stand for the same point "P"; any other triple is "mixed".

   Deviation switches (self-test: TLC must refute the invariants when one is TRUE):
     EARLY_PUBLISH  the list is assigned to self.__precompute BEFORE it is filled, the
                    appends then hit the published list
     SPLIT_ASSIGN   scale() stores the three coordinates one after the other
     TORN_READ      _maybe_precompute() reads z of self.__coords in one statement and x, y in a
                    later one (the real code reads the triple once); matters for a generator that
                    is given in Jacobian form (mode "jtable") and rescaled by the reader in between *)
EXTENDS Naturals, Sequences, TLC

CONSTANTS N, EARLY_PUBLISH, SPLIT_ASSIGN, TORN_READ,
          LOCKED   \* "none" (the real code) / "finally" / "nofinally": the table construction triggered by a
                   \* multiplication is serialised by one lock; released on every exit, or only on the normal one

VARIABLES mode,    \* "table": the object is a generator (affine);  "scale": a Jacobian point, no generator;
                   \* "jtable": a generator given in Jacobian form (z # 1): the table is built while the reader rescales it
          bpc,     \* builder: next statement
          loc,     \* builder's local list
          pub,     \* self.__precompute
          shared,  \* TRUE iff pub and loc are the same list object
          coords,  \* self.__coords
          tmp,     \* builder's locals holding the triple it read
          rdone,   \* some reader operation has run (then the reader may have published / rescaled)
          obs,     \* the last complete reader operation
          lk       \* the table lock (LOCKED # "none"): "free" or "A" (readers are complete operations: they never hold it across steps)
vars == <<mode, bpc, loc, pub, shared, coords, tmp, rdone, obs, lk>>

Prefix(k) == SubSeq([j \in 1..N |-> j], 1, k)
Full == Prefix(N)
Old == <<"X", "Y", "Z">>
New == <<"x", "y", "one">>
Affine(c) == IF c = Old \/ c = New THEN "P" ELSE "mixed"
Scaled(c) == IF Affine(c) = "P" THEN New ELSE <<"?", "?", "one">>
\* the table somebody builds from the triple he read
TableFrom(c) == IF Affine(c) = "P" THEN Full ELSE SubSeq([j \in 1..N |-> 0], 1, N)

-----------------------------------------------------------------------------
(* state predicates; Trace_LazyTable evaluates the same ones on recorded states *)
PubEmptyOrComplete == pub = <<>> \/ pub = Full
CoordsOldOrNew     == coords \in {Old, New}
\* as long as no reader has run: published only when complete, and it is A's list
AloneOK            == ~rdone => /\ (pub = <<>> \/ (loc = Full /\ pub = loc))
                                /\ (shared => pub = loc)
                                /\ (shared /\ N > 0 => loc = Full)
LocIsPrefix        == \E k \in 0..N : loc = Prefix(k)
TableComplete      == pub = Full
IsScaled           == coords = New

(* what ONE statement of the builder may do to the shared state (bpc hidden) *)
EffectTo(l2, p2, s2, c2) ==
    \/ l2 = loc /\ p2 = pub /\ s2 = shared /\ c2 = coords                        \* purely local statement
    \/ Len(loc) < N /\ l2 = Append(loc, Len(loc) + 1) /\ p2 = pub /\ s2 = shared /\ c2 = coords
    \/ loc = Full /\ l2 = loc /\ p2 = loc /\ s2 = TRUE /\ c2 = coords           \* publication
    \/ coords = Old /\ c2 = New /\ l2 = loc /\ p2 = pub /\ s2 = shared          \* rescaling
(* ... and any number of them *)
EffectStarTo(l2, p2, s2, c2) ==
    /\ Len(l2) >= Len(loc) /\ l2 = Prefix(Len(l2)) /\ loc = Prefix(Len(loc))
    /\ \/ p2 = pub /\ s2 = shared
       \/ pub = <<>> /\ l2 = Full /\ p2 = l2 /\ s2 = TRUE
    /\ c2 = coords \/ (coords = Old /\ c2 = New)

-----------------------------------------------------------------------------
Modes == {"table", "scale", "jtable"}
Init == /\ mode \in Modes
        /\ bpc = IF mode = "scale" THEN "s_read" ELSE IF LOCKED = "none" THEN "p_test" ELSE "p_lock"
        /\ lk = "free"
        /\ loc = <<>> /\ pub = <<>> /\ shared = FALSE
        /\ coords = IF mode = "table" THEN New ELSE Old
        /\ tmp = <<"-", "-", "-">>
        /\ rdone = FALSE
        /\ obs = [op |-> "none", seen |-> 0, ok |-> TRUE]

Go(l) == bpc' = l
PEnd == IF LOCKED = "none" THEN "done" ELSE "p_unlock"
AppendLoc == /\ loc' = Append(loc, IF Affine(tmp) = "P" THEN Len(loc) + 1 ELSE 0)
             /\ pub' = IF shared THEN loc' ELSE pub

(* _maybe_precompute, ellipticcurve.py:577-601 *)
P_Test    == bpc = "p_test" /\ Go(IF pub # <<>> THEN PEnd ELSE "p_new")          \* if ... or self.__precompute: return
             /\ UNCHANGED <<loc, pub, shared, coords, tmp>>
P_New     == bpc = "p_new" /\ Go("p_coords") /\ loc' = <<>>                          \* precompute = []
             /\ (IF EARLY_PUBLISH THEN pub' = <<>> /\ shared' = TRUE ELSE UNCHANGED <<pub, shared>>)
             /\ UNCHANGED <<coords, tmp>>
P_Coords  == bpc = "p_coords"                                                        \* coord_x, coord_y, coord_z = self.__coords
             /\ (IF TORN_READ THEN Go("p_coords2") /\ tmp' = <<tmp[1], tmp[2], coords[3]>>   \* (deviation: z first ...
                              ELSE Go("p_first") /\ tmp' = coords)
             /\ UNCHANGED <<loc, pub, shared, coords>>
P_Coords2 == bpc = "p_coords2" /\ Go("p_first") /\ tmp' = <<coords[1], coords[2], tmp[3]>>  \*  ... x and y later)
             /\ UNCHANGED <<loc, pub, shared, coords>>
P_First   == bpc = "p_first" /\ Go("p_while") /\ AppendLoc                           \* precompute.append(...)
             /\ UNCHANGED <<shared, coords, tmp>>
P_While   == bpc = "p_while" /\ Go(IF Len(loc) < N THEN "p_double" ELSE "p_publish") \* while i < order:
             /\ UNCHANGED <<loc, pub, shared, coords, tmp>>
P_Double  == bpc = "p_double" /\ Go("p_append")                                      \* i *= 2; doubler = doubler.double().scale()
             /\ UNCHANGED <<loc, pub, shared, coords, tmp>>
P_Append  == bpc = "p_append" /\ Go("p_while") /\ AppendLoc                          \* precompute.append(...)
             /\ UNCHANGED <<shared, coords, tmp>>
P_Publish == bpc = "p_publish" /\ Go(PEnd) /\ pub' = loc /\ shared' = TRUE         \* self.__precompute = precompute
             /\ UNCHANGED <<loc, coords, tmp>>

(* scale, ellipticcurve.py:689-707 *)
S_Read    == bpc = "s_read" /\ Go("s_test") /\ tmp' = coords                         \* x, y, z = self.__coords
             /\ UNCHANGED <<loc, pub, shared, coords>>
S_Test    == bpc = "s_test" /\ Go(IF tmp[3] = "one" THEN "done" ELSE "s_compute")    \* if z == 1: return self
             /\ UNCHANGED <<loc, pub, shared, coords, tmp>>
S_Compute == bpc = "s_compute" /\ Go(IF SPLIT_ASSIGN THEN "s_ax" ELSE "s_assign")    \* p, z_inv, zz_inv, x, y (locals)
             /\ UNCHANGED <<loc, pub, shared, coords, tmp>>
S_Assign  == bpc = "s_assign" /\ Go("done") /\ coords' = Scaled(tmp)                 \* self.__coords = (x, y, 1)
             /\ UNCHANGED <<loc, pub, shared, tmp>>
S_AX      == bpc = "s_ax" /\ Go("s_ay") /\ coords' = <<Scaled(tmp)[1], coords[2], coords[3]>> /\ UNCHANGED <<loc, pub, shared, tmp>>
S_AY      == bpc = "s_ay" /\ Go("s_az") /\ coords' = <<coords[1], Scaled(tmp)[2], coords[3]>> /\ UNCHANGED <<loc, pub, shared, tmp>>
S_AZ      == bpc = "s_az" /\ Go("done") /\ coords' = <<coords[1], coords[2], Scaled(tmp)[3]>> /\ UNCHANGED <<loc, pub, shared, tmp>>

(* variant LOCKED: `lock.acquire(); self._maybe_precompute(); lock.release()` around the construction *)
P_Lock    == bpc = "p_lock" /\ lk = "free" /\ lk' = "A" /\ Go("p_test") /\ UNCHANGED <<loc, pub, shared, coords, tmp>>
P_Unlock  == bpc = "p_unlock" /\ lk' = "free" /\ Go("done") /\ UNCHANGED <<loc, pub, shared, coords, tmp>>

Builder == /\ \/ /\ \/ P_Test \/ P_New \/ P_Coords \/ P_Coords2 \/ P_First \/ P_While \/ P_Double \/ P_Append \/ P_Publish
                    \/ S_Read \/ S_Test \/ S_Compute \/ S_Assign \/ S_AX \/ S_AY \/ S_AZ
                 /\ UNCHANGED lk
              \/ P_Lock \/ P_Unlock
           /\ UNCHANGED <<mode, rdone, obs>>

(* the builder's operation is abandoned at any statement (an exception: failed precondition, KeyboardInterrupt, ...) *)
Interrupt == /\ bpc \notin {"done", "aborted"}
             /\ bpc' = "aborted"
             /\ lk' = IF LOCKED = "finally" THEN "free" ELSE lk
             /\ UNCHANGED <<mode, loc, pub, shared, coords, tmp, rdone, obs>>

(* reader: complete operations *)
\* k*G: own complete _maybe_precompute (publishes a list of its own if none is published), then one pass over the table
RdMul == /\ mode \in {"table", "jtable"}
         /\ (LOCKED = "none" \/ pub # <<>> \/ lk = "free")       \* (variant LOCKED: waits for the lock when it has to build)
         /\ LET t == IF pub = <<>> THEN TableFrom(coords) ELSE pub
            IN /\ pub' = t
               /\ shared' = IF pub = <<>> THEN FALSE ELSE shared
               /\ obs' = [op |-> "mul", seen |-> Len(pub), ok |-> t = Full]
         /\ rdone' = TRUE
         /\ UNCHANGED <<mode, bpc, loc, coords, tmp, lk>>
\* ==, x(), y(): one read of the triple
RdEq  == /\ obs' = [op |-> "eq", seen |-> Len(pub), ok |-> Affine(coords) = "P"]
         /\ rdone' = TRUE
         /\ UNCHANGED <<mode, bpc, loc, pub, shared, coords, tmp, lk>>
\* k*Q on a point without table: own complete scale(), then the ladder on the triple
RdScaleMul == /\ mode \in {"scale", "jtable"}
              /\ coords' = IF coords[3] = "one" THEN coords ELSE Scaled(coords)
              /\ obs' = [op |-> "smul", seen |-> Len(pub), ok |-> Affine(coords') = "P"]
              /\ rdone' = TRUE
              /\ UNCHANGED <<mode, bpc, loc, pub, shared, tmp, lk>>
Reader == RdMul \/ RdEq \/ RdScaleMul

Finished == bpc \in {"done", "aborted"} /\ UNCHANGED vars
Next == Builder \/ Interrupt \/ Reader \/ Finished
Spec == Init /\ [][Next]_vars /\ WF_vars(Builder)

-----------------------------------------------------------------------------
TypeOK == /\ mode \in Modes
          /\ bpc \in {"p_test", "p_new", "p_coords", "p_coords2", "p_first", "p_while", "p_double", "p_append", "p_publish",
                      "s_read", "s_test", "s_compute", "s_assign", "s_ax", "s_ay", "s_az", "done",
                      "p_lock", "p_unlock", "aborted"}
          /\ lk \in {"free", "A"}
          /\ Len(loc) <= N /\ Len(pub) <= N
          /\ shared \in BOOLEAN /\ rdone \in BOOLEAN
          /\ obs.ok \in BOOLEAN
\* the reader sees the table empty or complete and gets the sequential result
ReaderOK == obs.ok /\ obs.seen \in {0, N}
\* every builder statement is one of the effects the trace spec allows between two preemption points
StepsAreEffects == [][bpc' # bpc => EffectTo(loc', pub', shared', coords')]_vars
\* nobody takes a published table away again
TableNeverShrinks == [][Len(pub') >= Len(pub)]_vars
BuilderFinishes == <>(bpc \in {"done", "aborted"})
\* nobody who needs the table is locked out for ever, also after an abandoned construction
NeverBlockedForever == []<>(lk = "free")
FinalOK == bpc = "done" => (mode # "scale" => TableComplete) /\ (mode = "scale" => IsScaled)
=============================================================================
