------------------------------ MODULE AESDef ------------------------------
(* The AES tables *defined* from GF(2^8) (FIPS-197 sections 4.2, 5.1.1, 5.1.3, 5.3.3) and, from them,
   the fourteen derived tables of the bundled pyaes (S, Si, T1..T8, U1..U4) as 4-byte big-endian words. *)
EXTENDS GF256, Sequences
SBoxDef(a) == LET b == GInv(a) IN
    (((b ^^ RotL8(b, 1)) ^^ (RotL8(b, 2) ^^ RotL8(b, 3))) ^^ RotL8(b, 4)) ^^ 99
SBoxFn == [a \in 0..255 |-> SBoxDef(a)]
InvSBoxDef(y) == CHOOSE a \in 0..255 : SBoxDef(a) = y
\* pyaes tables; x \in 0..255, result a word <<b3,b2,b1,b0>> (most significant byte first)
T1Def(s) == <<GMul(s, 2), s, s, GMul(s, 3)>>          \* T1[x] with s = S[x]
RotR(w) == <<w[4], w[1], w[2], w[3]>>                 \* T2 = T1 rotated right by 8 bits, etc.
T5Def(s) == <<GMul(s, 14), GMul(s, 9), GMul(s, 13), GMul(s, 11)>>   \* T5[x] with s = Si[x]
U1Def(x) == <<GMul(x, 14), GMul(x, 9), GMul(x, 13), GMul(x, 11)>>
RconDef(i) == IF i = 1 THEN 1 ELSE 0  \* placeholder, see RconSeq
RECURSIVE RconSeq(_)
RconSeq(n) == IF n = 1 THEN <<1>> ELSE LET p == RconSeq(n - 1) IN Append(p, XTime(p[n - 1]))
=============================================================================
