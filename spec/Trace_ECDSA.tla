---------------------------- MODULE Trace_ECDSA ----------------------------
(* C->S for C18 on a tiny prime-order curve (constants from the cfg): calls of the real Public_key.verifies,
   Private_key.sign, SigningKey.sign_digest and VerifyingKey.verify_digest judged by ECDSA.tla.
   Event fields (all events):  tid, op, via, d, z, k, r, dig, out, exc
     verrow : verifies(z, Signature(r, s)) for s = 0..Len(out)-1 under Q = Pub(d);
              out[s+1] = 1 (True) / 0 (False) / 2 (an exception, class names in exc)
     sign   : Private_key(d).sign(z, k)         -> exc = "ok", out = [r, s]  or exc = class of the exception
     signdig: SigningKey(d).sign_digest(dig, k=k, allow_truncate=True) -> as sign, z = Bits2Int(dig)
     verdig : VerifyingKey(d).verify_digest(sig(out[1], out[2]), dig, allow_truncate=True)
              -> exc = "True" or the class of the exception *)
EXTENDS ECDSA, Json, IOUtils, TLC
Trace == ndJsonDeserialize(IOEnv.TRACE_FILE)
VARIABLE i

RowVerdict(ev) ==
    LET Q   == Pub(ev.d)
        bad == {s \in 0..(Len(ev.out) - 1) : ev.out[s + 1] # (IF Verify(Q, ev.z, ev.r, s) THEN 1 ELSE 0)}
    IN  IF bad = {} THEN <<"ok", "">>
        ELSE IF \A s \in bad : ev.out[s + 1] = 2 /\ AtInfinity(Q, ev.z, ev.r, s)
             THEN <<"verifies-at-infinity", ToString(bad) \o " " \o ev.exc>>      \* raised where it must return False
        ELSE IF \A s \in bad : ev.out[s + 1] = 2 THEN <<"verifies-raises", ToString(bad) \o " " \o ev.exc>>
        ELSE <<"verifies-verdict", ToString(bad)>>

SignVerdict(ev, zz) ==
    LET sg == Sign(ev.d, zz, ev.k) IN
    IF sg[1] = "ok" THEN
        IF ev.exc = "ok" /\ ev.out = <<sg[2], sg[3]>> THEN <<"ok", "">> ELSE <<"sign-value", ToString(sg)>>
    ELSE IF ev.exc = "RSZeroError" THEN <<"ok", "">> ELSE <<"sign-zero-not-refused", ToString(sg)>>

Verdict(ev) ==
    IF ev.op = "verrow" THEN RowVerdict(ev)
    ELSE IF ev.op = "sign" THEN SignVerdict(ev, ev.z)
    ELSE IF ev.op = "signdig" THEN SignVerdict(ev, Bits2Int(ev.dig))
    ELSE IF ev.op = "verdig" THEN
        LET v == Verify(Pub(ev.d), Bits2Int(ev.dig), ev.out[1], ev.out[2]) IN
        IF v /\ ev.exc = "True" THEN <<"ok", "">>
        ELSE IF ~v /\ ev.exc = "BadSignatureError" THEN <<"ok", "">>
        ELSE IF ~v /\ ev.exc # "True" /\ AtInfinity(Pub(ev.d), Bits2Int(ev.dig), ev.out[1], ev.out[2])
             THEN <<"verifies-at-infinity", ev.exc>>
        ELSE <<"verify-digest-verdict", ToString(v) \o " " \o ev.exc>>
    ELSE <<"unknown-op", ev.op>>

Init == i = 1
Next == /\ i <= Len(Trace)
        /\ LET v == Verdict(Trace[i]) IN
             IF v[1] = "ok" THEN TRUE ELSE PrintT(<<"REJ", Trace[i].tid, v[1], v[2]>>)
        /\ i' = i + 1
        /\ IF i = Len(Trace) THEN PrintT(<<"DONE", i>>) ELSE TRUE
=============================================================================
