---------------------------- MODULE Trace_KeyEnc ----------------------------
(* C->S for C19: events recorded from the real python-ecdsa / bec2format classes and from
   the openssl CLI are judged by DER.tla / KeyEnc.tla.  Byte strings are arrays of 0..255;
   big integers only occur as byte strings and are only compared.

   op "enc"   library encoding of a key            kind spki|sec1|pkcs8, curve, cpe, pe,
              pub (X||Y from the point's integers), priv (scalar, n octets; [] for spki),
              enc (library bytes), dok/dcurve/dpub/dpriv (library decoding of enc)
   op "pt"    point / scalar strings               curve, pe raw|uncompressed|compressed|hybrid|scalar,
              pub (X||Y, or the scalar for pe = scalar), enc, dok, dpub
   op "pem"   PEM armour of the library            kind, der, pem, pub, priv, dok, dpub, dpriv
   op "ossl"  library bytes -> openssl -> bytes    kind, rel bytes|pkcs8, enc, ossl, ref
   op "odec"  openssl bytes -> library decoding    kind, curve, cpe, pe, enc, pem, tpub, tpriv (from
              openssl -text), dok/dpub/dpriv (from_der), pok/ppub/ppriv (from_pem)
   op "hdr"   bec2format PublicEccKey raw <-> DER  raw, der, back, ossl, back2
   op "mut"   a decoder on a damaged encoding      dec, layer der|point|scalar|pem, mk trunc|ext|mut, pos, val,
              body (pem: the cut removes base64 characters), data, L (point/scalar layers: the damaged
              string and the field/scalar length; [] and 0 otherwise), out ok|raise|timeout, mro, site
   op "curve" on-curve decision of a mutated point lib ok|reject, ossl ok|reject
   op "pemrep" a PEM loader on another text representation of a PEM file (CRLF, blank lines, ...; str or bytes)
              loader, kind spki|sec1|pkcs8|ecparams, curve, variant, form, der, text, pub, priv, dok, dcurve, dpub, dpriv
   op "smut"  a decoder on a structurally edited key file (TLV tree edits written back with correct lengths)
              dec, kind spki|sec1|pkcs8|ecparams, cpe, curve, edits, benign (only OPTIONAL members dropped / seed inserted),
              data (the file; [] where the verdict does not need it), pub, priv, out, cls, mro, site, dcurve, dpub, dpriv
   op "proxy" the crypto plug-in's key classes (register_crypto_plugin) as decoders, valid and damaged input
              entry raw|registry-raw|der|registry-der|decrypt|priv-der, mk, pos, val, input, out ok|raise, cls, mro,
              rraw, rder (the key that came out); paired route on pin: pout, pcls, pmro, praw, pder
              (raw entries: pin = header || input through create_from_der_fmt; decrypt: pin = the point of
               the block through create_from_raw_fmt; others: no pairing, pin = []) *)
EXTENDS KeyEnc, Json, IOUtils, TLC
Trace == ndJsonDeserialize(IOEnv.TRACE_FILE)
VARIABLE i

Documented == {"UnexpectedDER", "MalformedPointError", "UnknownCurveError", "ValueError"}

ParseKind(kind, s) == IF kind = "spki" THEN ParseSPKI(s) ELSE IF kind = "sec1" THEN ParseSEC1(s, 1, Len(s)) ELSE ParsePKCS8(s)

\* structure and content of a DER key encoding; pub = X||Y, priv = scalar octets (<<>> for spki)
DerVerdict(kind, curve, cpe, pe, pub, priv, enc) ==
    LET ct == CurveTab[curve]
        point == EncodePoint(pe, pub)
        params == EncOid(ct.arcs)
        P == ParseKind(kind, enc)
    IN
    IF curve \notin CurveNames THEN "unknown-curve-name"
    ELSE IF Len(pub) # 2 * ct.L THEN "public-key-length"
    ELSE IF DecodeTop(enc) # "ok" THEN DecodeTop(enc)
    ELSE IF ~P.ok THEN P.err
    ELSE IF P.point # point THEN "public-point-bytes"
    ELSE IF PointForm(P.point, ct.L) # pe THEN "public-point-form"
    ELSE IF kind # "spki" /\ LeftPad(P.priv, ct.n) # priv THEN "private-scalar-bytes"
    ELSE IF cpe = "named_curve" /\ ~(P.cpe = "named" /\ P.oid = OidBody(ct.arcs)) THEN "curve-oid"
    ELSE IF cpe = "explicit" /\ ~(P.cpe = "explicit" /\ P.L = ct.L) THEN "explicit-parameters"
    ELSE "ok"

\* the named-curve encodings are computed completely by the specification
ExpectedNamed(kind, curve, pe, pub, priv, ver) ==
    LET ct == CurveTab[curve]
        point == EncodePoint(pe, pub)
    IN  IF kind = "spki" THEN EncodeSPKI(ct.arcs, point)
        ELSE IF kind = "sec1" THEN EncodeSEC1(priv, EncOid(ct.arcs), point)
        ELSE EncodePKCS8(ver, EncOid(ct.arcs), priv, point)

VEnc(ev) ==
    LET v == DerVerdict(ev.kind, ev.curve, ev.cpe, ev.pe, ev.pub, ev.priv, ev.enc)
        P == ParseKind(ev.kind, ev.enc)
    IN
    IF v # "ok" THEN v
    ELSE IF ev.kind # "spki" /\ Len(P.priv) # CurveTab[ev.curve].n THEN "private-scalar-length"
    ELSE IF ev.cpe = "named_curve" /\ ev.enc # ExpectedNamed(ev.kind, ev.curve, ev.pe, ev.pub, ev.priv, P.ver) THEN "named-curve-bytes"
    ELSE IF ~ev.dok THEN "roundtrip-decode-failed"
    ELSE IF ev.dcurve # ev.curve THEN "roundtrip-curve"
    ELSE IF ev.dpub # ev.pub THEN "roundtrip-public"
    ELSE IF ev.dpriv # ev.priv THEN "roundtrip-private"
    ELSE IF \E k \in 0..(Len(ev.enc) - 1) : DecodeWin(ev.enc, k) = "ok" THEN "spec-accepts-a-truncation"
    ELSE IF ev.kind = "pkcs8" /\ (P.ver = 1) # PKCS8HasPublicKey(ev.enc) THEN "pkcs8-version"
    ELSE "ok"

VPt(ev) ==
    LET ct == CurveTab[ev.curve] IN
    IF ev.curve \notin CurveNames THEN "unknown-curve-name"
    ELSE IF ev.pe = "scalar" THEN
        (IF Len(ev.enc) # ct.n THEN "scalar-length"
         ELSE IF ev.enc # ev.pub THEN "scalar-bytes"
         ELSE IF ~ev.dok THEN "roundtrip-decode-failed"
         ELSE IF ev.dpub # ev.pub THEN "roundtrip-scalar" ELSE "ok")
    ELSE IF Len(ev.pub) # 2 * ct.L THEN "public-key-length"
    ELSE IF ev.enc # EncodePoint(ev.pe, ev.pub) THEN "point-bytes"
    ELSE IF PointForm(ev.enc, ct.L) # ev.pe THEN "point-form"
    ELSE IF ~ev.dok THEN "roundtrip-decode-failed"
    ELSE IF ev.dpub # ev.pub THEN "roundtrip-public"
    ELSE "ok"

VPem(ev) ==
    IF ev.pem # EncodePEM(ev.kind, ev.der) THEN "pem-bytes"
    ELSE IF ~ev.dok THEN "roundtrip-decode-failed"
    ELSE IF ev.dpub # ev.pub THEN "roundtrip-public"
    ELSE IF ev.dpriv # ev.priv THEN "roundtrip-private"
    ELSE "ok"

\* ref = the library's encoding of the same key in the form openssl was asked to write
\* (ref = enc except where openssl cannot write the library's form, see the harness)
VOssl(ev) ==
    IF ev.ossl = <<>> THEN "openssl-rejects"
    ELSE IF ev.ossl = ev.ref THEN "ok"
    ELSE IF ev.rel = "pkcs8" THEN
        LET P == ParsePKCS8(ev.ref) IN
        IF P.ok /\ ev.ossl = [ev.ref EXCEPT ![P.vpos] = 0] THEN "pkcs8-version" ELSE "openssl-bytes-differ"
    ELSE "openssl-bytes-differ"

VOdec(ev) ==
    LET v == DerVerdict(ev.kind, ev.curve, ev.cpe, ev.pe, ev.tpub, ev.tpriv, ev.enc)
        P == ParseKind(ev.kind, ev.enc)
    IN
    IF v # "ok" THEN v
    ELSE IF ev.kind = "pkcs8" /\ (P.ver = 1) # PKCS8HasPublicKey(ev.enc) THEN "pkcs8-version"
    ELSE IF ev.cpe = "named_curve" /\ ev.enc # ExpectedNamed(ev.kind, ev.curve, ev.pe, ev.tpub, P.priv, P.ver) THEN "named-curve-bytes"
    ELSE IF ev.pem # EncodePEM(ev.kind, ev.enc) THEN "pem-bytes"
    ELSE IF ~ev.dok THEN "library-rejects-der"
    ELSE IF ev.dpub # ev.tpub THEN "decoded-public"
    ELSE IF ev.dpriv # ev.tpriv THEN "decoded-private"
    ELSE IF ~ev.pok THEN "library-rejects-pem"
    ELSE IF ev.ppub # ev.tpub THEN "decoded-public-pem"
    ELSE IF ev.ppriv # ev.tpriv THEN "decoded-private-pem"
    ELSE "ok"

VHdr(ev) ==
    IF Len(ev.raw) # 64 THEN "raw-length"
    ELSE IF ev.der # EncodeSPKI(P256, <<4>> \o ev.raw) THEN "der-differs-from-EncodeSPKI"
    ELSE IF ev.der # BEC2_HEADER \o ev.raw THEN "der-differs-from-header"
    ELSE IF ev.back # ev.raw THEN "raw-roundtrip"
    ELSE IF ev.ossl # ev.der THEN "openssl-der-differs"
    ELSE IF ev.back2 # ev.raw THEN "raw-from-openssl-der"
    ELSE "ok"

\* BEC2's key class loaded from ANY legal DER form of a P-256 public key yields the key's raw 64-byte X||Y
VHdr2(ev) ==      \* (also used for compressed point strings of every curve: the decoded key must be THIS key)
    IF Len(ev.raw) = 0 \/ Len(ev.raw) % 2 # 0 THEN "raw-length"
    ELSE IF ~ev.ok THEN "legal-der-form-rejected"
    ELSE IF ev.back # ev.raw THEN "raw-form-is-not-the-key"
    ELSE "ok"

\* Which damaged inputs must be rejected whatever the numbers in them are:
\*   der     every truncation and extension (MC_DER / MC_DERTrees: valid DER is prefix-free; VEnc re-checks
\*           the truncations of every concrete encoding)
\*   point   every string whose length / prefix is no point form for the curve, and hybrid strings whose
\*           prefix contradicts the parity of Y (data = the damaged string, L = field length); a string
\*           that still has the shape of a point is accepted or not depending on the curve equation,
\*           which is not judged here (op "curve" relates that decision to openssl)
\*   scalar  every string whose length is not n (passed as L)
\*   pem     truncations that remove base64 characters of the body (everything else leaves the DER intact)
HybridParityBad(pt, L) == PointForm(pt, L) = "hybrid" /\ pt[1] # 6 + (pt[2 * L + 1] % 2)
MustReject(ev) == \/ ev.layer = "der" /\ ev.mk \in {"trunc", "ext"}
                  \/ ev.layer = "point" /\ (PointForm(ev.data, ev.L) = "bad" \/ HybridParityBad(ev.data, ev.L))
                  \/ ev.layer = "scalar" /\ Len(ev.data) # ev.L
                  \/ ev.layer = "pem" /\ ev.mk = "trunc" /\ ev.body
VMut(ev) ==
    IF ev.out = "raise" THEN
        (IF \E k \in 1..Len(ev.mro) : ev.mro[k] \in Documented THEN "ok" ELSE "undocumented-error")
    ELSE IF ev.out = "ok" THEN
        (IF MustReject(ev) THEN (IF ev.mk = "trunc" THEN "truncation-accepted"
                                 ELSE IF ev.mk = "ext" THEN "extension-accepted" ELSE "malformed-accepted")
         ELSE "ok")
    ELSE "no-verdict"

\* every text representation of a PEM file is the same key as its canonical form
VPemRep(ev) ==
    LET P == ParseParams(ev.der, 1, Len(ev.der)) IN
    IF ~SameText(ev.text, EncodePEM(ev.kind, ev.der)) THEN "text-is-no-representation-of-the-pem"
    ELSE IF ev.kind = "ecparams" /\ ~P.ok THEN P.err
    ELSE IF ev.kind = "ecparams" /\ P.cpe = "named" /\ P.oid # OidBody(CurveTab[ev.curve].arcs) THEN "curve-oid"
    ELSE IF ~ev.dok THEN "pem-representation-rejected"
    ELSE IF ev.dcurve # ev.curve THEN "pem-representation-curve"
    ELSE IF ev.dpub # ev.pub THEN "pem-representation-public"
    ELSE IF ev.dpriv # ev.priv THEN "pem-representation-private"
    ELSE "ok"

\* The plug-in's public-key class reports every refused key as ValueError; a well-formed SubjectPublicKeyInfo
\* of a named curve the library does not know is no malformed encoding (UnknownCurveError is then documented).
HasCls(mro, c) == \E k \in 1..Len(mro) : mro[k] = c
OtherNamedCurve(s) == LET P == ParseSPKI(s) IN P.ok /\ P.cpe = "named" /\ P.oid # OidBody(P256)
ProxyErrOk(entry, input, mro) ==
    IF entry = "priv-der" THEN \E k \in 1..Len(mro) : mro[k] \in Documented
    ELSE \/ HasCls(mro, "ValueError")
         \/ entry \in {"der", "registry-der"} /\ HasCls(mro, "UnknownCurveError") /\ OtherNamedCurve(input)
VProxy(ev) ==
    LET rawish == ev.entry \in {"raw", "registry-raw"} IN
    IF ev.out = "raise" /\ ~ProxyErrOk(ev.entry, ev.input, ev.mro) THEN "proxy-undocumented-error"
    ELSE IF ev.mk = "valid-block-not-decrypted" THEN "valid-block-not-decrypted"
    ELSE IF ev.out \notin {"ok", "raise"} THEN "no-verdict"
    ELSE IF ev.mk \in {"valid", "valid-bytearray"} /\ ev.out # "ok" THEN "valid-key-refused"
    ELSE IF rawish /\ ev.out = "ok" /\ ~(Len(ev.input) = 64 /\ ev.rraw = ev.input /\ ev.rder = BEC2_HEADER \o ev.input) THEN "raw-key-changed-or-malformed-accepted"
    ELSE IF ev.entry \in {"der", "registry-der"} /\ ev.out = "ok" /\ ev.mk \in {"trunc", "ext"} THEN "truncation-or-extension-accepted"
    ELSE IF ev.entry = "decrypt" /\ ev.out = "ok" /\ ev.mk = "trunc" THEN "truncation-or-extension-accepted"
    ELSE IF rawish /\ ev.pin # BEC2_HEADER \o ev.input THEN "harness-pairing"
    ELSE IF ev.entry = "decrypt" /\ ev.mk # "trunc" /\ ~(Len(ev.input) >= 65 /\ ev.input[1] = 4 /\ ev.pin = SubSeq(ev.input, 2, 65)) THEN "harness-pairing"
    ELSE IF (rawish \/ (ev.entry = "decrypt" /\ ev.mk # "trunc")) THEN
        (IF ev.pout = "raise" /\ ~HasCls(ev.pmro, "ValueError") THEN "proxy-undocumented-error-on-paired-route"
         ELSE IF ev.out # ev.pout THEN "routes-differ-in-accept-reject"
         ELSE IF ev.out = "raise" /\ ev.cls # ev.pcls THEN "routes-differ-in-error-class"
         ELSE IF rawish /\ ev.out = "ok" /\ (ev.rraw # ev.praw \/ ev.rder # ev.pder) THEN "routes-differ-in-key"
         ELSE "ok")
    ELSE "ok"

\* Structure-aware damage (op "smut").  ParseAny: the shape parser of the file kind; ECParameters alone for "ecparams".
ParseAny(kind, s) ==
    IF kind = "ecparams" THEN
        LET P == ParseParams(s, 1, Len(s)) IN
        [ok |-> P.ok, err |-> P.err, cpe |-> P.cpe, oid |-> P.oid, L |-> P.L, priv |-> <<>>, point |-> <<>>, ver |-> 0, vpos |-> 0]
    ELSE ParseKind(kind, s)
\* the AlgorithmIdentifier of a SubjectPublicKeyInfo names another curve / another kind of field: the file is then a key of
\* a curve the library does not know whatever else is wrong with it (UnknownCurveError is the documented answer)
AlgOfOtherCurve(s) ==
    LET top == Tlv(s, 1, Len(s))
        a   == Tlv(s, top.cs, top.ce)
        P   == ParseAlg(s, a)
    IN  top.ok /\ top.tag = T_SEQ /\ a.ok /\ ((P.ok /\ P.cpe = "named" /\ P.oid # OidBody(P256)) \/ P.err = "ecparams-fieldtype")
SmutErrOk(ev) ==
    IF ev.dec = "plugin.PublicEccKeyProxy.create_from_der_fmt" THEN
        \/ HasCls(ev.mro, "ValueError")
        \/ HasCls(ev.mro, "UnknownCurveError") /\ AlgOfOtherCurve(ev.data)
    ELSE \E k \in 1..Len(ev.mro) : ev.mro[k] \in Documented
\* Where the specification defines the outcome of a structurally edited file.  The decoders are lenient BY DOCUMENTATION in
\* these places: ECParameters is an extensible SEQUENCE whose seed / cofactor / field-element lengths are not validated
\* (curves.py), the publicKey [1] and everything after the privateKey is "ignored completely", PKCS#8 attributes likewise,
\* id-ecDH / id-ecMQV are accepted as private-key algorithms (keys.py).  Everything else the shape parsers reject must be rejected.
LenientAlways == {"ecparams-seed", "ecparams-cofactor", "ecparams-field-element-length"}
LenientPrivate == LenientAlways \cup {"sec1-trailing-data", "sec1-public-key", "sec1-optional-element", "pkcs8-optional-element",
                                     "params-tag", "params-oid", "params-trailing-data", "tlv-missing", "alg-oid"}
MustRejectStruct(kind, err) == IF kind \in {"spki", "ecparams"} THEN err \notin LenientAlways ELSE err \notin LenientPrivate
VSmut(ev) ==
    LET P == ParseAny(ev.kind, ev.data) IN
    IF ev.out = "raise" /\ ~SmutErrOk(ev) THEN "undocumented-error"
    ELSE IF ev.out \notin {"ok", "raise"} THEN "no-verdict"
    ELSE IF ev.benign THEN
        (IF ~P.ok THEN "benign-edit-not-valid-per-spec"
         ELSE IF ev.out # "ok" THEN "valid-structure-rejected"
         ELSE IF ev.dcurve # ev.curve THEN "valid-structure-decoded-curve"
         ELSE IF ev.kind # "ecparams" /\ ev.dpub # ev.pub THEN "valid-structure-decoded-public"
         ELSE IF ev.dpriv # ev.priv THEN "valid-structure-decoded-private"
         ELSE "ok")
    ELSE IF ev.out = "ok" /\ ~P.ok /\ MustRejectStruct(ev.kind, P.err) THEN "malformed-structure-accepted"
    ELSE "ok"

VCurve(ev) == IF ev.lib = ev.ossl THEN "ok" ELSE "on-curve-decision-differs"

Verdict(ev) ==
    IF ev.op = "enc" THEN VEnc(ev)
    ELSE IF ev.op = "pt" THEN VPt(ev)
    ELSE IF ev.op = "pem" THEN VPem(ev)
    ELSE IF ev.op = "ossl" THEN VOssl(ev)
    ELSE IF ev.op = "odec" THEN VOdec(ev)
    ELSE IF ev.op = "hdr" THEN VHdr(ev)
    ELSE IF ev.op = "hdr2" THEN VHdr2(ev)
    ELSE IF ev.op = "pemrep" THEN VPemRep(ev)
    ELSE IF ev.op = "proxy" THEN VProxy(ev)
    ELSE IF ev.op = "smut" THEN VSmut(ev)
    ELSE IF ev.op = "mut" THEN VMut(ev)
    ELSE IF ev.op = "curve" THEN VCurve(ev)
    ELSE "unknown-op"

Init == i = 1
Next == /\ i <= Len(Trace)
        /\ LET v == Verdict(Trace[i]) IN
             IF v = "ok" THEN TRUE ELSE PrintT(<<"REJ", Trace[i].tid, v, "">>)
        /\ i' = i + 1
        /\ IF i = Len(Trace) THEN PrintT(<<"DONE", i>>) ELSE TRUE
=============================================================================
