----------------------------- MODULE Gen_AcceptSet -----------------------------
(* S->C for C05: the same descriptor machine as MC_AcceptSet on the CONCRETE instance.  TLC writes each file with
   real field widths and real MACs (AES.tla) and prints the bytes together with the specification's verdict and
   content; the harness feeds the bytes to the real reader and compares.  Sharded by (key, number of entries, first component). *)
EXTENDS Bf3Concrete, TLC
CONSTANTS MaxDev, ShardKey, ShardN, ShardC
VARIABLES d, key
vars == <<d, key>>
K1 == <<16,32,48,64,80,96,112,128,144,160,176,192,208,224,240,0>>
Comps == << [desc |-> <<>>, blob |-> <<1>>, alen |-> 1, enc |-> FALSE],
            [desc |-> << <<16, <<7>> >> >>, blob |-> <<1,2,3,4,5,6,7,8,9,10,11,12,13,14,15,0>>, alen |-> 16, enc |-> FALSE],
            [desc |-> << <<1, <<>> >>, <<3, <<7, 0>> >> >>, blob |-> <<0,1,2,3,4,5,6,7,8,9,10,11,12,13,14,15,0>>, alen |-> 9, enc |-> FALSE],
            [desc |-> << <<194, <<2>> >> >>, blob |-> <<1,2,3,4,0>>, alen |-> 5, enc |-> TRUE] >>
Nominal(cs) == [ents |-> SubSeq([j \in 1..Len(cs) |-> L!NominalEntry(cs[j])], 1, Len(cs)), dirD |-> 0, sentinel |-> "present",
                trailing |-> <<>>, swap |-> FALSE]
Init == /\ key = (IF ShardKey = 0 THEN Zero16 ELSE K1)
        /\ IF ShardN = 0 THEN d = Nominal(<<>>)
           ELSE IF ShardN = 1 THEN d = Nominal(<<Comps[ShardC]>>)
           ELSE \E c2 \in 1..4 : d = Nominal(<<Comps[ShardC], Comps[c2]>>)
StoredLen(e) == Len(L!Raw(e.c, key))
EntryEdits(e) ==
    {[e EXCEPT !.lenD = x] : x \in IF e.lenD = 0 THEN {0 - 1, 1} ELSE {}}
    \cup {[e EXCEPT !.adrD = x] : x \in IF e.adrD = 0 THEN {0 - 1, 1} ELSE {}}
    \cup {[e EXCEPT !.totD = x] : x \in IF e.totD = 0 THEN {0 - 1, 1} ELSE {}}
    \cup {[e EXCEPT !.declared = x] : x \in IF e.declared = e.c.alen THEN {StoredLen(e) + 1, StoredLen(e) + 200} ELSE {}}
    \cup {[e EXCEPT !.dlenD = x] : x \in IF e.dlenD = 0 THEN (IF Len(e.c.desc) > 0 THEN {0 - 1, 1} ELSE {1}) ELSE {}}
    \cup (IF ~e.dup /\ Len(e.c.desc) > 0 THEN {[e EXCEPT !.dup = TRUE]} ELSE {})
    \cup (IF e.tlenD = 0 /\ Len(e.c.desc) > 0
          THEN {[e EXCEPT !.tlenD = 1]} \cup (IF Len(e.c.desc[Len(e.c.desc)][2]) > 0 THEN {[e EXCEPT !.tlenD = 0 - 1]} ELSE {}) ELSE {})
    \cup {[e EXCEPT !.stray = x] : x \in IF e.stray = <<>> THEN {<<0>>, <<5, 0, 9>>} ELSE {}}
    \cup {[e EXCEPT !.emac = x] : x \in IF e.emac = "valid" THEN {"idx-1", "idx+1", "otherkey", "garbage"} ELSE {}}
    \cup {[e EXCEPT !.pmac = x] : x \in IF e.pmac = "valid" THEN {"otherkey", "garbage"} ELSE {}}
Edit == /\ L!Deviations(d) < MaxDev
        /\ \/ \E j \in 1..Len(d.ents) : \E e2 \in EntryEdits(d.ents[j]) : d' = [d EXCEPT !.ents[j] = e2]
           \/ d.dirD = 0 /\ \E x \in {0 - 1, 1} : d' = [d EXCEPT !.dirD = x]
           \/ d.sentinel = "present" /\ \E x \in {"absent", "nonzero"} : d' = [d EXCEPT !.sentinel = x]
           \/ d.trailing = <<>> /\ \E x \in {<<0>>, <<1>>, <<0, 0>>} : d' = [d EXCEPT !.trailing = x]
           \/ ~d.swap /\ Len(d.ents) = 2 /\ d' = [d EXCEPT !.swap = TRUE]
        /\ UNCHANGED key
Spec == Init /\ [][Edit]_vars
File == Bf3Sig \o L!SerializeRaw(d, 5, key)
Emit == LET f == File  p == L!Parse(f, 5, key, TRUE) IN
        PrintT(<<"CASE", f, key, p.ok, p.err, p.comps, L!Deviations(d)>>)
=============================================================================
