---------------------------- MODULE MC_ConfigId ----------------------------
(* Reduced instance of ConfigId: customer 2 digits, project/device/version 1 digit, unknown code 9, so the
   identifier looks like dd-d-d-d.  Three state spaces (selected by the INIT of the cfg), one state = one case:
     InitId      identifiers (all numeric fields x a few names, a few numeric fields x all token names)
     InitText    texts built from tokens
     InitDerive  configurations: every subset of the 7 naming values, several byte widths *)
EXTENDS ConfigId, TLC
CONSTANTS ND, NT,              \* max tokens per name / per text
          FULL                 \* TRUE: all project / device values with every customer, else a few
VARIABLES seed, x              \* Init: one state per seed; Next: the seed's cases (so that all workers are used)

RECURSIVE CatFrom(_, _)
CatFrom(f, j) == IF j > Len(f) THEN <<>> ELSE f[j] \o CatFrom(f, j + 1)
Words(toks, n) == {CatFrom(f, 1) : f \in UNION {[1..k -> toks] : k \in 0..n}}
V1 == <<40, 118, 101, 114, 115, 105, 111, 110, 32, 49, 41>>       \* "(version 1)"
LookAlike == <<49, 49, 45, 49, 45, 49, 45, 49>>                   \* "11-1-1-1": a numeric identifier of this instance
NameToks == {<<49>>, <<45>>, <<32>>, <<120>>, <<10>>, V1, <<32>> \o V1, LookAlike}
TextToks == {<<49>>, <<48>>, <<57>>, <<45>>, <<32>>, <<120>>, <<10>>, <<32>> \o V1, VerOpen, <<49, 41>>, LookAlike,
             <<48, 57, 45, 49, 45, 49, 45, 49>>, <<49, 49, 45, 57, 45, 57, 45, 49>>, <<1633>>}
Names(n) == {NoName} \cup {Name(s) : s \in Words(NameToks, n)}
FewNames == {NoName, Name(<<120>>), Name(LookAlike \o <<32, 120>>), Name(<<32>> \o V1)}

PS == IF FULL THEN -1..9 ELSE {-1, 0, 5, 8}
DS == PS
IdCases(c) == {Id(c, p, d, v, n) : p \in PS, d \in DS, v \in 0..9, n \in FewNames}
              \cup (IF c \in {-1, 0, 10, 9}
                    THEN {Id(c, p, d, v, n) : p \in {-1, 0, 5}, d \in {-1, 0, 5}, v \in {0, 7}, n \in Names(ND)} ELSE {})
InitId == seed \in -1..99 /\ x = NoId
NextId == seed # -2 /\ seed' = -2 /\ x' \in IdCases(seed)
\* texts: the seed is the first token
TextSeeds == Words(TextToks, 1)
InitText == seed \in TextSeeds /\ x = <<>>
NextText == seed # <<-2>> /\ seed' = <<-2>> /\ x' \in {seed \o w : w \in Words(TextToks, NT - 1)}
Num1 == {[has |-> 0, b |-> <<>>], [has |-> 1, b |-> <<0>>], [has |-> 1, b |-> <<5>>], [has |-> 1, b |-> <<0, 5>>],
         [has |-> 1, b |-> <<0, 0, 0, 9>>]}
Ver1 == {[has |-> 0, b |-> <<>>], [has |-> 1, b |-> <<3>>], [has |-> 1, b |-> <<0, 0, 7>>]}
Nam1 == {[has |-> 0, b |-> <<>>], [has |-> 1, b |-> <<>>], [has |-> 1, b |-> <<120>>], [has |-> 1, b |-> LookAlike],
         [has |-> 1, b |-> <<239, 187, 191>>],                  \* only U+FEFF: a non-empty name
         [has |-> 1, b |-> <<194, 160, 120>>],                  \* U+00A0 x
         [has |-> 1, b |-> <<120, 255>>]}                       \* not UTF-8
\* UTF-8 vectors
ASSUME Utf8(<<239, 187, 191, 65>>) = [ok |-> TRUE, s |-> <<65279, 65>>]
ASSUME Utf8(<<240, 159, 152, 128>>) = [ok |-> TRUE, s |-> <<128512>>]
ASSUME Utf8(<<244, 143, 191, 191>>) = [ok |-> TRUE, s |-> <<1114111>>]
ASSUME Utf8(<<226, 128, 168, 204, 129>>) = [ok |-> TRUE, s |-> <<8232, 769>>]
ASSUME \A bad \in {<<192, 128>>, <<224, 128, 128>>, <<237, 160, 128>>, <<244, 144, 128, 128>>, <<245, 128, 128, 128>>, <<128>>,
                    <<195>>, <<239, 187>>, <<120, 255>>, <<240, 143, 191, 191>>} : ~Utf8(bad).ok
DCase(w, c, d, dn, dv, p, pn, pv) == [w |-> w, V |-> <<c, d, dn, dv, p, pn, pv>>]
Absent == [has |-> 0, b |-> <<>>]
InitDerive == seed \in Num1 /\ x = DCase("prj", Absent, Absent, Absent, Absent, Absent, Absent, Absent)
NextDerive == seed # Absent /\ seed' = Absent
              /\ x' \in {DCase(w, seed, d, dn, dv, p, pn, pv) :
                           w \in {"prj", "dev"}, d \in Num1, dn \in Nam1, dv \in Ver1, p \in Num1, pn \in Nam1, pv \in Ver1}

\* ---- identifiers
Same(i) == ParseId(PrintId(i)) = [ok |-> TRUE, id |-> i]
RoundTrip == (InDomain(x) /\ ~Ambiguous(x)) => (Same(x) /\ Canonical(PrintId(x)))
AmbiguityIsGenuine == (InDomain(x) /\ Ambiguous(x)) => ~Same(x)        \* the excluded names are exactly the failing ones
RoundTripAllNames == InDomain(x) => Same(x)                            \* EXPECTED VIOLATED: the format is ambiguous
SentinelPrinted == (InDomain(x) /\ IsScheme(x)) => LET r == ParseId(PrintId(x)) IN r.id.p = x.p /\ r.id.d = x.d
\* deliberately wrong variant (self-test, must be refuted): the name-only pattern taking the FIRST " (version d)"
ParseNonGreedy(t) ==
    IF IsHead(t) THEN ParseId(t)
    ELSE LET e  == LineEnd(t, 1)
             qs == {q \in 0..(e - VS) : IsVerAt(t, q)}
         IN  IF qs = {} THEN [ok |-> FALSE, id |-> NoId]
             ELSE LET q == CHOOSE y \in qs : \A z \in qs : y <= z IN
                  [ok |-> TRUE, id |-> Id(None, None, None, Num(t, q + Len(VerOpen) + 1, WV), Name(SubSeq(t, 1, q)))]
WrongVariantNonGreedy == (InDomain(x) /\ ~Ambiguous(x)) => ParseNonGreedy(PrintId(x)) = [ok |-> TRUE, id |-> x]
\* ---- texts
CanonRoundTrip == Canonical(x) => LET r == ParseId(x) IN r.ok /\ InDomain(r.id) /\ PrintId(r.id) = x
\* a parsed identifier can be printed again, except the text whose customer is the unknown code and that has no name
ParseSound == LET r == ParseId(x) IN r.ok => /\ r.id.v \in 0..9
                                             /\ ~Printable(r.id) => (IsHead(x) /\ Num(x, PC, WC) = UNK /\ r.id.n = NoName)
\* ---- derivation
DeriveCases ==
    LET prj == x.w = "prj"
        V == x.V
        ver == IF prj THEN V[7] ELSE V[4]
        nam == IF prj THEN V[6] ELSE V[3]
        complete == IF prj THEN V[1].has = 1 /\ V[5].has = 1 ELSE V[1].has = 1
        \* the characters of the names of this instance, stated literally (not through Utf8)
        txt == IF nam.b = <<239, 187, 191>> THEN <<65279>> ELSE IF nam.b = <<194, 160, 120>> THEN <<160, 120>> ELSE nam.b
        und == nam.has = 1 /\ nam.b = <<120, 255>>
        named == nam.has = 1 /\ Len(txt) > 0
        r == Derive(x.w, V)
    IN  /\ r.ok <=> (ver.has = 1 /\ ~und /\ (complete \/ named))
        /\ ~r.ok => r.err = (IF ver.has = 1 /\ und THEN ErrUtf ELSE IF prj THEN ErrPrj ELSE ErrDev)
        /\ (r.ok /\ ~complete) => (r.id.c = None /\ r.id.p = None /\ r.id.d = None /\ r.id.n = Name(txt))
        /\ (r.ok /\ complete) => /\ r.id.c = Unk(BE(V[1].b)) /\ r.id.d = Unk(IF V[2].has = 1 THEN BE(V[2].b) ELSE 0)
                                 /\ r.id.p = (IF prj THEN Unk(BE(V[5].b)) ELSE 0)
                                 /\ r.id.n = (IF nam.has = 1 THEN Name(txt) ELSE NoName)
        /\ r.ok => r.id.v = BE(ver.b)
DerivedRoundTrip == LET r == Derive(x.w, x.V) IN (r.ok /\ InDomain(r.id) /\ ~Ambiguous(r.id)) => Same(r.id)
=============================================================================
