--------------------------- MODULE Trace_ECGroup ---------------------------
(* C->S for C17 on a tiny curve (constants from the cfg): every event is one call of the real library
   (PointJacobi / Point / VerifyingKey / ECDH built on the library's own CurveFp for this curve);
   TLC computes the expected result from the affine law of ECGroup.
   Event fields (all events):  tid, op, via, a, b, k, m, out, s
     a, b   operands in Jacobian coordinates [X, Y, Z] exactly as handed to the library
     out    affine result [inf, x, y] ([1,0,0] = point at infinity)
     via    which library path was driven (information only, except for op "pub")
   ops: add dbl neg negadd mul muladd conv eq pub ecdh *)
EXTENDS ECGroup, Json, IOUtils, TLC
Trace == ndJsonDeserialize(IOEnv.TRACE_FILE)
VARIABLE i

\* results are compared as residues: the library may return an unreduced (even negative) affine coordinate,
\* e.g. y of -P; that is the same field element
PtOK(o)  == Len(o) = 3 /\ o[1] \in {0, 1}
Norm(o)  == IF o[1] = 1 THEN Inf ELSE <<0, o[2] % P, o[3] % P>>
Cmp(ev, exp) == IF ~PtOK(ev.out) THEN <<"no-result", ToString(exp)>>              \* the call raised
                ELSE IF Norm(ev.out) = exp THEN <<"ok", "">> ELSE <<ev.op \o "-value", ToString(exp)>>

\* public point loading.  via: point | point-other | jac | infinity-object | raw | uncompressed | hybrid | compressed | ecdh
\* a = [x, y, prefix] as handed to the library (a = Jacobian triple for via "jac")
PubExpect(ev) ==
    LET x == ev.a[1]  y == ev.a[2]  pre == ev.a[3] IN
    IF ev.via = "infinity-object" THEN Inf
    ELSE IF ev.via = "jac" THEN
        IF (ev.a[3] % P) = 0 THEN Inf
        ELSE LET pt == AffOf(ev.a) IN IF ValidPubPt(pt) THEN pt ELSE Inf
    ELSE IF ev.via = "compressed" THEN
        LET yy == Decompress(pre - 2, x) IN
        IF pre \in {2, 3} /\ yy # -1 /\ ValidPub(x, yy) THEN <<0, x, yy>> ELSE Inf
    ELSE IF ev.via = "hybrid" THEN
        IF pre \in {6, 7} /\ (y % 2) = pre - 6 /\ ValidPub(x, y) THEN <<0, x, y>> ELSE Inf
    ELSE IF ValidPub(x, y) THEN <<0, x, y>> ELSE Inf          \* Inf stands for "must be rejected"
PubVerdict(ev) ==
    LET exp == PubExpect(ev) IN
    IF ev.s = "ok" THEN
        IF exp = Inf THEN
            \* accepted although invalid: name the class of the input.  n*Q = (x0, 0), the point of order 2, which the
            \* library reads as infinity (Y = 0): on-curve points outside the subgroup pass the order check
            IF ev.via \notin {"compressed", "hybrid", "jac", "infinity-object"}
               /\ ev.a[1] \in Fp /\ ev.a[2] \in Fp /\ OnCurve(ev.a[1], ev.a[2])
               /\ Mul(N, <<0, ev.a[1], ev.a[2]>>)[1] = 0 /\ Mul(N, <<0, ev.a[1], ev.a[2]>>)[3] = 0
            THEN <<"order-check-reads-y0-as-infinity", "">>
            ELSE <<"pub-invalid-accepted", "">>
        ELSE IF ev.out = exp THEN <<"ok", "">> ELSE <<"pub-point-value", ToString(exp)>>
    ELSE IF exp # Inf THEN <<"pub-valid-rejected", ev.s>>
    ELSE IF ev.s = "MalformedPointError|AssertionError|Exception" THEN <<"ok", "">>
    ELSE IF ev.via = "infinity-object" THEN <<"infinity-object-exception-class", ev.s>>
    ELSE <<"pub-exception-class", ev.s>>

Verdict(ev) ==
    IF ev.op = "pub" THEN PubVerdict(ev)
    ELSE IF ev.op = "ecdh" THEN
        \* k = dA, m = dB, a = [secret of A, secret of B, 0]
        LET e == ECDH(ev.k, ev.m) IN
        IF ev.a[1] = e /\ ev.a[2] = e /\ e # -1 THEN <<"ok", "">> ELSE <<"ecdh-secret", ToString(e)>>
    ELSE IF ~RepOK(ev.a) \/ ~RepOK(ev.b) THEN <<"bad-operand", "">>          \* harness error, not a finding
    ELSE LET pa == AffOfLib(ev.a)  pb == AffOfLib(ev.b) IN
         IF      ev.op = "add"    THEN Cmp(ev, Add(pa, pb))
         ELSE IF ev.op = "dbl"    THEN Cmp(ev, Dbl(pa))
         ELSE IF ev.op = "neg"    THEN Cmp(ev, Neg(pa))
         ELSE IF ev.op = "negadd" THEN
              LET v == Cmp(ev, Add(Neg(pa), pb)) IN
              \* (-A) + B with B = -A, both with Z = 1: the doubling case reached with an unreduced Y
              IF v[1] = "negadd-value" /\ ev.a[3] = 1 /\ ev.b[3] = 1 /\ Neg(pa) = pb /\ pb # Inf
              THEN <<"neg-then-add-equal-point-z1", v[2]>> ELSE v
         ELSE IF ev.op = "mul"    THEN Cmp(ev, Mul(ev.k, pa))
         ELSE IF ev.op = "muladd" THEN Cmp(ev, MulAdd(ev.k, pa, ev.m, pb))
         ELSE IF ev.op = "conv"   THEN Cmp(ev, pa)
         ELSE IF ev.op = "eq"     THEN
              IF (ev.k = 1) <=> (pa = pb) THEN <<"ok", "">> ELSE <<"eq-value", ToString(pa = pb)>>
         ELSE <<"unknown-op", ev.op>>

Init == i = 1
Next == /\ i <= Len(Trace)
        /\ LET v == Verdict(Trace[i]) IN
             IF v[1] = "ok" THEN TRUE ELSE PrintT(<<"REJ", Trace[i].tid, v[1], v[2]>>)
        /\ i' = i + 1
        /\ IF i = Len(Trace) THEN PrintT(<<"DONE", i>>) ELSE TRUE
=============================================================================
