----------------------------- MODULE Bf3Concrete -----------------------------
(* Concrete instance of the layout: real field widths, bytes, AES.tla as MAC and cipher. *)
EXTENDS AES, Text
CONSTANTS SHORT_READ_OK, ENC_NEVER_DECRYPTS, DEC_STRIPS_ZEROS
CCell(n) == n
CVal(c)  == c
CMac(key, i, d) == CbcMac(key, IvOfIndex(i), d)
CEnc(key, d) == CbcEnc(key, Zero16, d)
RECURSIVE StripZeros(_, _)
StripZeros(d, n) == IF n > 0 /\ d[n] = 0 THEN StripZeros(d, n - 1) ELSE SubSeq(d, 1, n)
CDec(key, d) == LET p == CbcDec(key, Zero16, d) IN IF DEC_STRIPS_ZEROS THEN StripZeros(p, Len(p)) ELSE p
L == INSTANCE Bf3Layout WITH W_ADR <- 4, W_LEN <- 4, W_MAC <- 16, BLK <- 16, Base <- 256, Huge <- 1073741824,
        Cell <- CCell, Val <- CVal, Mac <- CMac, Enc <- CEnc, Dec <- CDec, ENC_TAG <- 194, ENC_SESSION <- <<2>>, KeyA <- Zero16, KeyB <- <<1,1,1,1,1,1,1,1,1,1,1,1,1,1,1,1>>, GarbageCell <- 165
Bf3Sig  == <<66, 70, 51, 0, 0>>          \* "BF3\0\0"
Bec2Sig == <<66, 69, 67, 50, 0>>         \* "BEC2\0"
=============================================================================
