---------------------------- MODULE MC_Container ----------------------------
(* C08 at real scale: every payload length 0..253 (it is arithmetic plus AES.tla), 16 chains of lengths. *)
EXTENDS Bec2Concrete, TLC
VARIABLE n
K1 == <<1,2,3,4,5,6,7,8,9,10,11,12,13,14,15,16>>
K2 == <<1,2,3,4,5,6,7,8,9,10,11,12,13,14,15,17>>
CK == <<201,202,203,204,205,206,207,208,209,0>>
P(m) == SubSeq([j \in 1..m |-> (j * 7 + m * 13) % 256], 1, m)
Init == n \in 0..15
Next == n + 16 <= 253 /\ n' = n + 16
FrameArith == /\ FramePadLen(n) \in 1..16 /\ (2 + FramePadLen(n) + n + 2) % 16 = 0
              /\ Len(Frame(P(n))) = 2 + FramePadLen(n) + n + 2
Inverse == LET c == Wrap(K1, P(n))  u == Unwrap(K1, c) IN
           /\ Len(c) % 16 = 0 /\ Len(c) > 0 /\ u.ok /\ u.payload = P(n) /\ FrameOK(CbcDec(K1, Zero16, c), P(n))
Errors == LET f == Frame(P(n))
              badMarker == CbcEnc(K1, Zero16, [f EXCEPT ![1] = 67])
              badCrc    == CbcEnc(K1, Zero16, [f EXCEPT ![Len(f)] = (f[Len(f)] + 1) % 256])
          IN  /\ ~Unwrap(K1, badMarker).ok /\ Unwrap(K1, badMarker).err = "marker"
              /\ ~Unwrap(K1, badCrc).ok /\ Unwrap(K1, badCrc).err = "crc"
              /\ ~Unwrap(K2, Wrap(K1, P(n))).ok                      \* a frame made under another key
CustKey == n >= 10 => \A pos \in {0, (n - 10) \div 2, n - 10} :
             LET c == Wrap(K1, CustWrapPlain(P(n), CK, pos))  u == CustUnwrap(K1, CK, pos, c) IN
             /\ u.ok /\ u.payload = PutCk(P(n), Zeros(10), pos)
             /\ Unwrap(K1, c).payload = PutCk(P(n), CK, pos)                              \* key really inside the frame
             /\ ~CustUnwrap(K1, [CK EXCEPT ![1] = 0], pos, c).ok                           \* other customer key => error
\* self-test: the padding formula without the enforced minimum of one byte is wrong
BadPadLen(m) == (16 - ((2 + m + 2) % 16)) % 16
SelfTestBad == BadPadLen(n) \in 1..16
=============================================================================
