--------------------------- MODULE MC_AESTables ---------------------------
(* TLC re-derives the literal tables of AESTables.tla from the definitions. *)
EXTENDS AESDef, AESTables, TLC
SB == [a \in 0..255 |-> SBoxDef(a)]
ASSUME \A a \in 0..255 : SBox[a + 1] = SBoxDef(a)
ASSUME \A a \in 0..255 : InvSBox[SBox[a + 1] + 1] = a /\ SBox[InvSBox[a + 1] + 1] = a
ASSUME \A a \in 0..255 : /\ Mul2[a + 1] = GMul(a, 2)  /\ Mul3[a + 1] = GMul(a, 3)
                         /\ Mul9[a + 1] = GMul(a, 9)  /\ Mul11[a + 1] = GMul(a, 11)
                         /\ Mul13[a + 1] = GMul(a, 13) /\ Mul14[a + 1] = GMul(a, 14)
ASSUME Rcon = RconSeq(30)
\* field sanity: every non-zero element has exactly one inverse; multiplication commutes on a sample row
ASSUME \A a \in 1..255 : GMul(a, GInv(a)) = 1
ASSUME \A a \in 0..255 : GMul(a, 87) = GMul(87, a)
ASSUME GMul(87, 131) = 193      \* FIPS-197 section 4.2 example {57}*{83}={c1}
ASSUME GMul(87, 19) = 254       \* {57}*{13}={fe}
VARIABLE x
Init == x = 0
Next == x' = x
=============================================================================
