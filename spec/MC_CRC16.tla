---------------------------- MODULE MC_CRC16 ----------------------------
(* Exhaustive: every 16-bit state x every byte.  256 chains (one per low byte)
   of 256 states (high byte) so that all workers are used. *)
EXTENDS CRC16, TLC
VARIABLES hi, lo
Init == hi = 0 /\ lo \in 0..255
Next == hi < 255 /\ hi' = hi + 1 /\ lo' = lo
S == hi * 256 + lo
FormsAgreeAndFit == \A b \in 0..255 : LET r == StepBit(S, b) IN r = StepTab(S, b) /\ r = StepShift(S, b) /\ r \in 0..65535
Table == [x \in 0..255 |-> TabEntry(x)]
ASSUME PrintT(<<"TAB", [x \in 0..255 |-> TabEntry(x)]>>)
\* deliberately wrong variants, used by the self-test (each must be refuted)
BadShift(s, b) == LET b1 == b ^^ (s % 256)  b2 == b1 ^^ ((b1 * 16) % 256)
                  IN ((s \div 256) ^^ (b2 * 256)) ^^ ((b2 * 8) ^^ (b2 \div 32))
SelfTestBad == \A b \in 0..255 : StepBit(S, b) = BadShift(S, b)
=============================================================================
