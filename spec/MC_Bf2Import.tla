---------------------------- MODULE MC_Bf2Import ----------------------------
(* Bounded exhaustive instances for C13 (PAGE = 4).  One state variable s, three modes (INIT/NEXT pairs):
   F  platform filters      all filters of <= MaxF entries over FIds x {more} x {neg}
   P  payload layouts       all sequences of <= MaxRuns pairwise disjoint runs (1..2 lines of 1..3 bytes) over 3 pages,
                            any file order, first line in the first page: gaps at every position, page crossings, lines straddling a page end,
                            non-zero starts, out-of-order blocks
   S  section layouts       files of 1..S_MaxSec sections built from section descriptors (what the author of the
                            BF2 file means); the machine of Bf2Import run on the printed items must produce what
                            the descriptors state                                                               *)
EXTENDS Bf2Import
CONSTANTS DROP_FIRST_AFTER_GAP, SKIP_RETAINS_DATA,
          MaxF, MaxRuns, MaxPage,
          S_MaxSec, S_Types, S_Sels, S_Vers, S_Sifs, S_Shapes, S_Crcs, S_Reboots, S_Upds, S_Fws, S_Creators, S_Enfs
VARIABLES s, res          \* res: result of the import of the printed layout (mode S; computed once per state), else 0
MCDev == [drop |-> DROP_FIRST_AFTER_GAP, retain |-> SKIP_RETAINS_DATA]

\* ================================================================== mode F
FIds == {155, 173, 300}
FEntries == {<<128 * m + 64 * n + (id \div 256), id % 256>> : m \in {0, 1}, n \in {0, 1}, id \in FIds}
InitF == s = <<1, 0>> /\ res = 0
NextF == /\ NEntries(s) < MaxF
         /\ \E e \in FEntries : s' = <<1, NEntries(s) + 1>> \o SubSeq(s, 3, Len(s)) \o e
         /\ res' = 0
RenderWellFormed(f) == LET t == RenderTokens(f) IN t = <<>> \/ PExpr(t, 1, {}).n = Len(t) + 1
\* the rendered expression means what the filter bytes mean, for every assignment of the mentioned hardware ids
FilterEquiv == FilterClosed(s) => /\ RenderWellFormed(s)
                                  /\ \A A \in SUBSET FIds : EvalTokens(RenderTokens(s), A) = Meaning(s, A)
\* self-test (must be refuted): also for filters whose last entry announces a further group member
FilterEquivAll == \A A \in SUBSET FIds : EvalTokens(RenderTokens(s), A) = Meaning(s, A)
FilterHeader == /\ FilterOk(s) /\ ~FilterOk(Append(s, 0)) /\ ~FilterOk([s EXCEPT ![1] = 2])
                /\ ~FilterOk([s EXCEPT ![2] = @ + 1]) /\ ~FilterOk(<<1>>) /\ ~FilterOk(<<>>)

\* ================================================================== mode P
T0 == 100
\* page, offs, len, n: every line STARTS inside its page (16-bit offset) but may end in the next one (flat addressing)
Cand == {c \in (0..MaxPage) \X (0..(PAGE - 1)) \X (1..3) \X (1..2) :
             c[2] + c[3] * (c[4] - 1) < PAGE /\ c[1] * PAGE + c[2] + c[3] * c[4] <= (MaxPage + 1) * PAGE}
CellsOf(pg, offs, len, n) == {pg * PAGE + offs + k : k \in 0..(len * n - 1)}
RunCells(r) == CellsOf(r[3] - T0, r[4], r[5], r[2])
Used(rs) == UNION {RunCells(rs[j]) : j \in 1..Len(rs)}
NextId(rs) == IF rs = <<>> THEN 1 ELSE rs[Len(rs)][1] + rs[Len(rs)][2]
InitP == s \in {<< <<1, c[4], T0, c[2], c[3]>> >> : c \in {d \in Cand : d[1] = 0}} /\ res = 0
NextP == /\ Len(s) < MaxRuns
         /\ \E c \in Cand : /\ CellsOf(c[1], c[2], c[3], c[4]) \cap Used(s) = {}
                            /\ s' = Append(s, <<NextId(s), c[4], T0 + c[1], c[2], c[3]>>)
         /\ res' = 0
\* independent byte-level reading of the layout: which (line, offset) sits at which address
PL == ExpandRuns(s, 1)                                   \* the single data lines in file order
PN == Cardinality(Used(s))                               \* number of payload bytes
PAdr(l) == (l[3] - T0) * PAGE + l[4]
ByteAt(a) == LET j == CHOOSE j \in 1..Len(PL) : PAdr(PL[j]) <= a /\ a < PAdr(PL[j]) + PL[j][5] IN <<PL[j][1], a - PAdr(PL[j])>>
LineById(id) == PL[CHOOSE j \in 1..Len(PL) : PL[j][1] = id]
RECURSIVE IdList(_, _)
IdList(ids, i) == IF i > Len(ids) THEN <<>> ELSE Mat([j \in 1..ids[i][2] |-> ids[i][1] + j - 1], ids[i][2]) \o IdList(ids, i + 1)
RECURSIVE BytesOfList(_, _)
BytesOfList(l, i) == IF i > Len(l) THEN <<>>
                     ELSE Mat([k \in 1..LineById(l[i])[5] |-> <<l[i], k - 1>>], LineById(l[i])[5]) \o BytesOfList(l, i + 1)
BytesOfIds(ids) == BytesOfList(IdList(ids, 1), 1)
HasGapOrStart == Used(s) # 0..(PN - 1)
Ascending == \A j \in 1..(Len(PL) - 1) : PAdr(PL[j + 1]) = PAdr(PL[j]) + PL[j][5]
\* BF2-compatible: the raw lines in file order, each once
RawInOrder == LET c == Convert(s, F_RAW, DROP_FIRST_AFTER_GAP) IN c.err = "" /\ IdList(c.ids, 1) = Mat([j \in 1..Len(PL) |-> PL[j][1]], Len(PL))
\* blob: accepted only if it is the contiguous image from address 0 (every line once); gaps / non-zero start rejected
BlobIsImage == LET c == Convert(s, F_BLOB, DROP_FIRST_AFTER_GAP) IN
    /\ c.err = "" => /\ ~HasGapOrStart
                     /\ BytesOfIds(c.ids) = Mat([p \in 1..PN |-> ByteAt(p - 1)], PN)
    /\ HasGapOrStart => c.err # ""
    /\ (Ascending /\ ~HasGapOrStart) => c.err = ""
\* memory image: blocks ascending, every block carries the bytes of its addresses, every payload byte exactly once
MemImage == LET b == Convert(s, F_MEM, DROP_FIRST_AFTER_GAP).blocks IN
    /\ \A j \in 1..(Len(b) - 1) : b[j].adr + b[j].len <= b[j + 1].adr
    /\ \A j \in 1..Len(b) : LET bs == BytesOfIds(b[j].ids) IN
           /\ Len(bs) = b[j].len
           /\ \A k \in 1..Len(bs) : (b[j].adr + k - 1) \in Used(s) /\ bs[k] = ByteAt(b[j].adr + k - 1)
    /\ UNION {b[j].adr..(b[j].adr + b[j].len - 1) : j \in 1..Len(b)} = Used(s)
\* the step on runs is the step on single lines
RunsAreLines == \A d \in BOOLEAN : Unpack(s, d) = Unpack(PL, d)

\* ================================================================== mode S
HasNext(bt) == Known(bt + 1) /\ (bt + 1) \notin BaseTypes
FwRel == <<49,49,48,48,32,65,66,67,68,69,70,71,72,73,32,49,46,48,50,46,48,51,32,120>>      \* "1100 ABCDEFGHI 1.02.03 x"
FwDbg == <<49,49,48,48,32,65,66,67,68,69,70,71,72,73,32,68,45,49,46,48,50,32,32,120>>      \* "1100 ABCDEFGHI D-1.02  x"
CrcTxt == <<48,120,49,65,50,98>>                                                          \* "0x1A2b"
VerBytes == <<9, 9, 2, 7, 8, 5>>
SelBytes(x) == IF x = "single" THEN <<1, 1, 0, 173>> ELSE IF x = "multi" THEN <<1, 2, 128, 155, 64, 173>>
               ELSE IF x = "bgm" THEN <<1, 1, 0, 182>>               \* one of the three special-cased spellings -> BGM12X
               ELSE IF x = "bgmneg" THEN <<1, 1, 64, 182>>           \* not special-cased: single entry -> HWCID = the entry (40 B6)
               ELSE IF x = "bgmand" THEN <<1, 2, 0, 182, 0, 190>>    \* not special-cased, two entries: not convertible for a peripheral
               ELSE <<>>
SifText(x) == IF x = "ok" THEN "BRP-SER" ELSE IF x = "star" THEN "*" ELSE "RS485"
MCNames == << <<155, <<83, 77, 52>>>>, <<190, <<66, 71, 77>>>> >>
Cmt(name, text) == Item("cmt", name, "", text, <<>>, <<>>)
Ins(name, x, b) == Item("ins", name, x, <<>>, b, <<>>)
Ln(id, ty, offs, len) == <<id, 1, ty, offs, len>>
ShapeGroups(sh, bt, b) ==
    IF sh = "one" THEN << <<Ln(b + 1, bt, 0, 2)>> >>
    ELSE IF sh = "two" THEN (IF HasNext(bt) THEN << <<Ln(b + 1, bt, 0, 3), Ln(b + 2, bt, 3, 1)>>, <<Ln(b + 3, bt + 1, 0, 2)>> >>
                             ELSE << <<Ln(b + 1, bt, 0, 3), Ln(b + 2, bt, 3, 1)>> >>)
    ELSE IF sh = "straddle" THEN << <<Ln(b + 1, bt, 0, 3), Ln(b + 2, bt, 3, 2)>>, <<Ln(b + 3, bt + 1, 1, 2)>> >>   \* 2nd line ends in the next page
    ELSE IF sh = "gap" THEN << <<Ln(b + 1, bt, 0, 1), Ln(b + 2, bt, 2, 1)>> >>
    ELSE IF sh = "gapmid" THEN << <<Ln(b + 1, bt, 0, 1), Ln(b + 2, bt, 2, 1), Ln(b + 3, bt, 3, 1)>> >>
    ELSE IF sh = "nz" THEN << <<Ln(b + 1, bt, 1, 2)>> >>
    ELSE IF sh = "pagegap" THEN << <<Ln(b + 1, bt, 0, 3)>>, <<Ln(b + 2, bt + 1, 0, 1)>> >>
    ELSE << <<Ln(b + 1, bt + 1, 0, 1)>> >>                                                  \* "nonbase"
ShapeLoss(sh) == sh \in {"gap", "gapmid", "nz", "pagegap"}
RECURSIVE Concat(_, _)
Concat(ss, i) == IF i > Len(ss) THEN <<>> ELSE ss[i] \o Concat(ss, i + 1)
SecItems(x, k) ==
    LET g == ShapeGroups(x.shape, x.bt, 10 * k) IN
    (IF x.ver # "none" THEN <<Ins("CHECK_FWVER", IF x.ver = "star" THEN "*" ELSE "hex", IF x.ver = "star" THEN <<>> ELSE VerBytes)>> ELSE <<>>)
    \o (IF x.sel # "none" THEN <<Ins("SELECT", "", SelBytes(x.sel))>> ELSE <<>>)
    \o (IF x.sif # "none" THEN <<Ins("SELECT_IF", SifText(x.sif), <<>>)>> ELSE <<>>)
    \o (IF x.crc = "pre" THEN <<Cmt("CRC", CrcTxt)>> ELSE <<>>)
    \o Mat([j \in 1..Len(g) |-> Item("grp", "", "", <<>>, <<>>, g[j])], Len(g))
    \o (IF x.crc = "post" THEN <<Cmt("CRC", CrcTxt)>> ELSE <<>>)
    \o (IF x.reboot THEN <<Ins("REBOOT", "", <<>>)>> ELSE <<>>)
PrintFile(f) == (IF f.upd THEN <<Cmt("Bf3Update", <<49>>)>> ELSE <<>>)
            \o (IF f.fw = "rel" THEN <<Cmt("Firmware", FwRel)>> ELSE IF f.fw = "dbg" THEN <<Cmt("Firmware", FwDbg)>> ELSE <<>>)
            \o (IF f.creator THEN <<Cmt("Creator", <<120>>)>> ELSE <<>>)
            \o Concat(Mat([k \in 1..Len(f.secs) |-> SecItems(f.secs[k], k)], Len(f.secs)), 1)

\* ---- what the descriptors state
Ign(f, k) == f.secs[k].bt \in IgnoredTypes
RECURSIVE LastSet(_, _, _)
LastSet(f, k, fld) == IF k = 0 THEN "none" ELSE IF f.secs[k][fld] # "none" THEN f.secs[k][fld] ELSE LastSet(f, k - 1, fld)
EffSel(f, k) == LastSet(f, k, "sel")          \* SELECT and SELECT_IF persist
EffSif(f, k) == LastSet(f, k, "sif")
RECURSIVE PendVer(_, _)                       \* CHECK_FWVER is consumed by the section it precedes; ignored sections consume nothing
PendVer(f, k) == IF f.secs[k].ver # "none" THEN f.secs[k].ver
                 ELSE IF k > 1 /\ Ign(f, k - 1) THEN PendVer(f, k - 1) ELSE "none"
Broken(f, k) == ~Known(f.secs[k].bt) \/ f.secs[k].shape = "nonbase"
Skipped(f, k) == ~Ign(f, k) /\ ~Broken(f, k) /\ EffSif(f, k) = "bad"
IsComp(f, k) == ~Ign(f, k) /\ ~Broken(f, k) /\ ~Skipped(f, k)
SecIdx(f) == 1..Len(f.secs)
MustReject(f) ==
    \/ \E k \in SecIdx(f) : Broken(f, k)                                                               \* unknown tag type
    \/ \E k \in SecIdx(f) : ~Ign(f, k) /\ ~Broken(f, k) /\ CompType(f.secs[k].bt) = T_PERIPH /\ EffSel(f, k) \in {"multi", "bgmand"}
    \/ \E k \in SecIdx(f) : IsComp(f, k) /\ CompFmt(f.secs[k].bt) = F_BLOB /\ ShapeLoss(f.secs[k].shape)  \* gap / non-zero start in a blob
    \/ \E k \in SecIdx(f) : IsComp(f, k) /\ CompType(f.secs[k].bt) = T_LOADER /\ EffSif(f, k) # "ok"      \* loader without interface
    \/ f.enf /\ ~(f.upd /\ \E k \in SecIdx(f) : ~Ign(f, k))                                             \* no BF3-update marker
IDesc(f, k) ==
    LET x == f.secs[k]  ty == CompType(x.bt)  es == EffSel(f, k)  pv == PendVer(f, k)
        byfw == ty # T_PERIPH /\ f.fw = "rel"
    IN  [fmt |-> CompFmt(x.bt), type |-> ty,
         hw |-> IF ty = T_PERIPH /\ es = "single" THEN <<0, 173>> ELSE IF ty = T_PERIPH /\ es = "bgm" THEN <<0, 190>>
                ELSE IF ty = T_PERIPH /\ es = "bgmneg" THEN <<64, 182>> ELSE CompHw(x.bt),
         intf |-> IF EffSif(f, k) = "ok" THEN <<1>> ELSE CompIntf(x.bt),
         reboot |-> x.reboot, crc |-> IF x.crc # "none" THEN <<0, 0, 26, 43>> ELSE <<>>,
         hasver |-> byfw \/ pv = "v", ver |-> IF byfw THEN <<4, 76, 1, 2, 3>> ELSE IF pv = "v" THEN <<7, 8>> ELSE <<>>,
         haspf |-> es # "none", pf |-> SelBytes(es)]
IOrder(f) == LET ks(t) == SelectSeq(Mat([k \in 1..Len(f.secs) |-> k], Len(f.secs)), LAMBDA k : IsComp(f, k) /\ CompType(f.secs[k].bt) = t)
             IN  ks(0) \o ks(1) \o ks(2)
IIds(f, k) == AllIds(Concat(ShapeGroups(f.secs[k].shape, f.secs[k].bt, 10 * k), 1))
IComps(f) == LET o == IOrder(f) IN Mat([j \in 1..Len(o) |-> [desc |-> DescSeq(IDesc(f, o[j])), ids |-> IIds(f, o[j])]], Len(o))
IComments(f) ==
    LET o == IOrder(f)  any == \E k \in SecIdx(f) : ~Ign(f, k) IN
    (IF any /\ f.fw # "none" THEN {<<K_FwId, <<49, 49, 48, 48>>>>, <<K_FwVer, IF f.fw = "rel" THEN <<49,46,48,50,46,48,51>> ELSE <<68,45,49,46,48,50,32>>>>} ELSE {})
    \cup (IF any /\ f.creator THEN {<<K_Creator, <<120>> \o S_Suffix>>} ELSE {})
    \cup (IF any /\ f.upd THEN {<<K_Upd, <<49>>>>} ELSE {})
    \cup {<<S_Component \o Dec(j - 1), CompComment(IDesc(f, o[j]), MCNames)>> : j \in 1..Len(o)}

\* ---- generation: sections are delimited the way the importer can recognise them
NoPre(x) == x.sel = "none" /\ x.sif = "none" /\ x.ver = "none" /\ x.crc # "pre"
Admissible(f, x) ==
    LET k == Len(f.secs) + 1 IN
    /\ (x.bt \in IgnoredTypes => ~x.reboot /\ x.crc = "none" /\ x.shape \in {"one", "two"})
    /\ (x.shape \in {"pagegap", "nonbase", "straddle"} => HasNext(x.bt))
    /\ (x.shape = "nonbase" => k = 1 \/ f.secs[k - 1].reboot)
    /\ (k = 1 \/ f.secs[k - 1].reboot \/ Ign(f, k - 1) \/ NoPre(x) \/ (PendVer(f, k - 1) # "none" /\ x.ver # "none"))
Secs == [bt : S_Types, sel : S_Sels, ver : S_Vers, sif : S_Sifs, shape : S_Shapes, crc : S_Crcs, reboot : S_Reboots]
ResOf(f) == Import(PrintFile(f), f.enf, MCNames, MCDev)
InitS == s \in [upd : S_Upds, fw : S_Fws, creator : S_Creators, enf : S_Enfs, secs : {<<>>}] /\ res = ResOf(s)
NextS == /\ Len(s.secs) < S_MaxSec
         /\ \E x \in {y \in Secs : Admissible(s, y)} : s' = [s EXCEPT !.secs = Append(@, x)]     \* (set filter: short-circuit evaluation)
         /\ res' = ResOf(s')
Res == res
\* the import produces exactly what the descriptors state: type, format, hardware id, interface, filter, version,
\* checksum, reboot, payload lines, order, comments -- or rejects exactly when it must
SAgree == s.secs # <<>> =>
            IF MustReject(s) THEN Res.err # ""
            ELSE Res.err = "" /\ Res.comps = IComps(s) /\ Res.comments = IComments(s)
\* every data line of a section that is neither ignored nor skipped nor rejected is used exactly once, no other line at all
SUsedOnce == (s.secs # <<>> /\ Res.err = "") =>
            LET got == Concat(Mat([j \in 1..Len(Res.comps) |-> IdList(Res.comps[j].ids, 1)], Len(Res.comps)), 1)
                want == UNION {{IdList(IIds(s, k), 1)[j] : j \in 1..Len(IdList(IIds(s, k), 1))} : k \in {k \in SecIdx(s) : IsComp(s, k)}}
            IN  Len(got) = Cardinality(want) /\ {got[j] : j \in 1..Len(got)} = want
SRejects == (s.secs # <<>> /\ MustReject(s)) => Res.err # ""
SGrammar == ParseLines(LinesOf(PrintFile(s), 1), 1, <<>>, <<>>) = ExpandItems(PrintFile(s))
=============================================================================
