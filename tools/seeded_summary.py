#!/venv/bin/python
import json, glob, os, sys
pat = sys.argv[1] if len(sys.argv) > 1 else 'C*_*m*'
for d in sorted(glob.glob('/verif/seeded/' + pat)):
    mp = os.path.join(d, 'meta.json')
    if not os.path.exists(mp): continue
    m = json.load(open(mp))
    det = m.get('detection', {})
    print(os.path.basename(d), 'confirmed' if m.get('confirmed') else 'NOT-CONFIRMED(%s,%s,%s)' % (m.get('demo_clean_rc'), m.get('demo_mutant_rc'), m.get('new_failing_tests')),
          {c: (v.get('exit'), v.get('first', '')[11:90]) if isinstance(v, dict) else v for c, v in det.items()})
