#!/bin/bash
# usage: tools/revert_fix_test.sh <repo-commit> <check-id>...   -- reverse-applies a fix: commit to /repo's working tree,
# runs the given checks (expected: exit 1 with VIOLATION), restores the tree.  Prints one line per check.
c=$1; shift
cd /repo || exit 2
git diff --quiet || { echo "repo working tree not clean"; exit 2; }
git show "$c" | git apply -R || exit 2
for id in "$@"; do
  out=$(cd /verif && bin/check "$id" --tier quick 2>&1); rc=$?
  echo "revert $c check $id -> exit $rc; $(echo "$out" | grep -c '^VIOLATION') VIOLATION line(s); first: $(echo "$out" | grep -m1 'violation:')"
done
git -C /repo checkout -- .
