#!/venv/bin/python
"""Evaluate seeded changes written by sub-agents (each in /tmp/mut_Cnn/out/mK.diff with mK_demo.py, mK_notes.md).
step 'confirm': in the agent's own worktree: demo exits 0 clean / 1 with the diff; test suite gets no new failing id.
step 'detect' : apply the diff to /repo's working tree, run the quick check(s), undo (git checkout -- .).
Results are written to /verif/seeded/<Cnn>_mK/ (patch.diff, demo.py, meta.json)."""
import json, os, subprocess, sys, shutil, re

FLAKY = ("test_add_different_scale_points", "test_add_same_scale_points", "test_sig_verify", "test_p192_mult_tests",
         "test_multithreading_with_interrupts", "test_add_one_scaled_point",
         # timing-dependent under load (sleep-based / hypothesis deadline): seen failing on the unchanged tree when 10+ jobs share the machine
         "test_writer_priority", "test_lcm_with_random_numbers")
SEEDED = "/verif/seeded"
ROUND = int(os.environ.get("ROUND", "1"))


def dname(pid, k):
    return "%s_m%d" % (pid, k) if ROUND == 1 else "%s_r%dm%d" % (pid, ROUND, k)


def sh(cmd, cwd=None, timeout=3000):
    p = subprocess.run(cmd, shell=True, cwd=cwd, stdout=subprocess.PIPE, stderr=subprocess.STDOUT, text=True, timeout=timeout)
    return p.returncode, p.stdout


def failing_ids(wt):
    rc, out = sh("/venv/bin/python -m pytest -q -p no:cacheprovider --timeout=900 --continue-on-collection-errors -q 2>&1 | grep -E '^(FAILED|ERROR)' | sed 's/ - .*//' | sort", cwd=wt)
    sh("rm -rf .hypothesis/examples t", cwd=wt)
    return set(l.strip() for l in out.splitlines() if l.strip())


def confirm(pid, k):
    wt = "/tmp/mut_%s" % pid
    out = os.path.join(wt, "out")
    diff, demo = os.path.join(out, "m%d.diff" % k), os.path.join(out, "m%d_demo.py" % k)
    res = {"property": pid, "mutant": "m%d" % k, "round": ROUND}
    sh("git checkout -- . && git clean -fdq -e out", cwd=wt)
    res["demo_clean_rc"] = sh("/venv/bin/python %s %s" % (demo, wt), cwd=out)[0]
    base = failing_ids(wt)
    rc, o = sh("git apply %s" % diff, cwd=wt)
    res["applies"] = rc == 0
    if rc == 0:
        rc2, o2 = sh("/venv/bin/python %s %s" % (demo, wt), cwd=out)
        res["demo_mutant_rc"] = rc2
        res["demo_output_tail"] = o2[-600:]
        mut = failing_ids(wt)
        new = sorted(x for x in mut - base if not any(f in x for f in FLAKY))
        res["new_failing_tests"] = new
        res["imports"] = sh("/venv/bin/python -c \"import sys; sys.path[:0]=['%s/appnotes','%s']; import bec2format, register_crypto_plugin\"" % (wt, wt))[0] == 0
    sh("git checkout -- . && git clean -fdq -e out", cwd=wt)
    res["confirmed"] = bool(res.get("applies") and res.get("demo_clean_rc") == 0 and res.get("demo_mutant_rc") == 1
                            and not res.get("new_failing_tests") and res.get("imports"))
    return res


def detect(pid, k, checks):
    """Apply the change to a scratch worktree of /repo's HEAD and run the quick checks against it (VERIF_REPO), evidence and
    replays redirected to a scratch directory (VERIF_OUT); equivalent to `git -C /repo apply` + check + `git checkout -- .`,
    but leaves /repo alone so that several changes can be evaluated in parallel."""
    import tempfile
    diff = os.path.join(SEEDED, dname(pid, k), "patch.diff")
    wt = tempfile.mkdtemp(prefix="det_%s_m%d_" % (pid, k))
    os.rmdir(wt)
    rc, o = sh("git -C /repo worktree add -q --detach %s HEAD" % wt)
    out = {}
    try:
        rc, o = sh("git apply %s" % diff, cwd=wt)
        if rc != 0:
            return {"error": "diff does not apply to /repo HEAD: " + o[-200:]}
        scratch = tempfile.mkdtemp(prefix="detout_")
        for c in checks:
            rc, o = sh("VERIF_REPO=%s VERIF_OUT=%s bin/check %s --tier quick" % (wt, scratch, c), cwd="/verif")
            viol = [l for l in o.splitlines() if l.strip().startswith("violation:")]
            out[c] = {"exit": rc, "violation_lines": len([l for l in o.splitlines() if l.startswith("VIOLATION")]),
                      "first": viol[0].strip()[:300] if viol else "", "tail": o[-500:] if rc == 2 else ""}
        shutil.rmtree(scratch, ignore_errors=True)
    finally:
        sh("git -C /repo worktree remove --force %s" % wt)
    return out


def headcheck(pid, k):
    """does the stored change still break the property on /repo's CURRENT HEAD (a later fix: commit may have neutralised it)?"""
    import tempfile
    d = os.path.join(SEEDED, dname(pid, k))
    wt = tempfile.mkdtemp(prefix="head_%s_m%d_" % (pid, k))
    os.rmdir(wt)
    sh("git -C /repo worktree add -q --detach %s HEAD" % wt)
    try:
        rc, o = sh("git apply %s" % os.path.join(d, "patch.diff"), cwd=wt)
        if rc != 0:
            return {"applies_to_head": False}
        rc2, o2 = sh("/venv/bin/python %s %s" % (os.path.join(d, "demo.py"), wt), cwd=d)
        return {"applies_to_head": True, "demo_on_head_rc": rc2, "head": sh("git -C /repo rev-parse --short HEAD")[1].strip()}
    finally:
        sh("git -C /repo worktree remove --force %s" % wt)


def main():
    step, pid, k = sys.argv[1], sys.argv[2], int(sys.argv[3])
    d = os.path.join(SEEDED, dname(pid, k))
    os.makedirs(d, exist_ok=True)
    mp = os.path.join(d, "meta.json")
    meta = json.load(open(mp)) if os.path.exists(mp) else {}
    if step == "confirm":
        meta.update(confirm(pid, k))
        src = "/tmp/mut_%s/out" % pid
        shutil.copy(os.path.join(src, "m%d.diff" % k), os.path.join(d, "patch.diff"))
        shutil.copy(os.path.join(src, "m%d_demo.py" % k), os.path.join(d, "demo.py"))
        notes = os.path.join(src, "m%d_notes.md" % k)
        meta["needs_to_manifest"] = open(notes).read() if os.path.exists(notes) else ""
        meta["what_i_ran"] = ("tools/eval_mutants.py confirm: demo on the clean worktree (exit 0) and with the diff applied (exit 1); "
                              "pinned test suite with and without the diff, failing ids compared (known-flaky hypothesis tests ignored); import check")
    elif step == "headcheck":
        meta.update(headcheck(pid, k))
    else:
        checks = sys.argv[4:] or [pid]
        if step == "redetect" and "detection" in meta and "detection_round1" not in meta:
            meta["detection_round1"] = meta.pop("detection")         # first-run result kept (checks as they were before strengthening)
        meta.setdefault("detection", {}).update(detect(pid, k, checks))
    json.dump(meta, open(mp, "w"), indent=1)
    print(pid, k, step, json.dumps({k2: v for k2, v in meta.items() if k2 in ("confirmed", "detection", "demo_on_head_rc", "applies_to_head", "new_failing_tests", "demo_clean_rc", "demo_mutant_rc")})[:400])


main()
