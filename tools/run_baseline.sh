#!/bin/bash
# runs the pinned test suite (guard off) and compares with BASELINE.json stable_pass
out=${1:-/tmp/verif_baseline.xml}
cd /repo && env -u BEC2FORMAT_VERIF /venv/bin/python -m pytest -ra -q -p no:cacheprovider --timeout=900 --continue-on-collection-errors --junitxml=$out > /tmp/verif_baseline.log 2>&1
# the hypothesis example database under /repo/.hypothesis must not keep examples from this run (a saved failing example
# of a randomised test would be replayed for ever): remove what this run added
find /repo/.hypothesis/examples -type f -newer /verif/properties.jsonl -delete 2>/dev/null; find /repo/.hypothesis/examples -type d -empty -delete 2>/dev/null
[ -z "$(git -C /repo ls-files t)" ] && rm -rf /repo/t      # scratch directory of the suite's OpenSSL tests
/venv/bin/python - "$out" <<'P'
import sys, json, xml.etree.ElementTree as ET
b = json.load(open('/root/.vp/BASELINE.json'))
stable = set(b['stable_pass'])
passed = set()
for tc in ET.parse(sys.argv[1]).getroot().iter('testcase'):
    if not any(ch.tag in ('failure', 'error', 'skipped') for ch in tc):
        passed.add(tc.get('classname') + '::' + tc.get('name'))
missing = sorted(stable - passed)
print("stable tests: %d, passing now: %d, missing: %d" % (len(stable), len(stable & passed), len(missing)))
for m in missing[:20]: print("  MISSING", m)
P
