#!/venv/bin/python
"""Run the quick checks against behaviour-preserving changes (false-alarm test).
usage: tools/eval_benign.py <dir with <ID>_b<i>.diff> <outdir> [jobs]
For each patch: a scratch worktree of /repo, the patch applied, the check of the patch's own property and of every property
anchored in a touched file; any rc != 0 is a false alarm to be explained."""
import json, os, re, subprocess, sys, tempfile, concurrent.futures as cf

src, out = sys.argv[1], sys.argv[2]
jobs = int(sys.argv[3]) if len(sys.argv) > 3 else 3
os.makedirs(out, exist_ok=True)
anch = {}
for l in open("/verif/properties.jsonl"):
    d = json.loads(l)
    anch[d["id"]] = set(d["anchors"]["files"])


def touched(diff):
    return set(re.findall(r"^\+\+\+ b/(\S+)", open(diff).read(), re.M))


def one(job):
    name, pid = job
    diff = os.path.join(src, name + ".diff")
    res = os.path.join(out, "%s__%s.rc" % (name, pid))
    if os.path.exists(res):
        return name, pid, open(res).read().strip()
    wt = tempfile.mkdtemp(prefix="ben_%s_%s_" % (name, pid), dir="/tmp")
    os.rmdir(wt)
    subprocess.run(["git", "-C", "/repo", "worktree", "add", "-q", "--detach", wt, "HEAD"], check=True)
    try:
        a = subprocess.run(["git", "-C", wt, "apply", diff], capture_output=True, text=True)
        if a.returncode:
            rc = "NOAPPLY"
        else:
            e = dict(os.environ, VERIF_REPO=wt, VERIF_OUT=wt + ".out")
            with open(os.path.join(out, "%s__%s.log" % (name, pid)), "w") as f:
                rc = str(subprocess.run(["/verif/bin/check", pid, "--tier", "quick"], cwd="/verif", env=e, stdout=f, stderr=subprocess.STDOUT).returncode)
    finally:
        subprocess.run(["git", "-C", "/repo", "worktree", "remove", "--force", wt])
        subprocess.run(["rm", "-rf", wt + ".out"])
    open(res, "w").write(rc + "\n")
    return name, pid, rc


todo = []
for fn in sorted(os.listdir(src)):
    if not fn.endswith(".diff"):
        continue
    name = fn[:-5]
    own = name[:3]
    t = touched(os.path.join(src, fn))
    pids = [own] + sorted(p for p in anch if p != own and anch[p] & t)
    for p in pids:
        todo.append((name, p))
if os.environ.get("PAIRS"):        # "C17_b1:C18,C19 C06_b1:C02" - exactly these runs
    todo = [(w.split(":")[0], p_) for w in os.environ["PAIRS"].split() for p_ in w.split(":")[1].split(",")]
if os.environ.get("OWN_ONLY"):
    todo = [(n, p) for n, p in todo if n[:3] == p]
print(len(todo), "runs")
with cf.ThreadPoolExecutor(jobs) as ex:
    for name, pid, rc in ex.map(one, todo):
        print(name, pid, "rc=" + rc, flush=True)
