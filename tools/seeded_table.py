#!/venv/bin/python
"""markdown table of the seeded changes of one round:  tools/seeded_table.py 'C*_r3m*'"""
import json, glob, os, sys, re
pat = sys.argv[1]
print("| seeded change | first run (own check) | now | caught by (quick tier) | what it is |")
print("|---|---|---|---|---|")
for d in sorted(glob.glob('/verif/seeded/' + pat)):
    mp = os.path.join(d, 'meta.json')
    if not os.path.exists(mp):
        continue
    m = json.load(open(mp))
    name = os.path.basename(d)
    own = name[:3]
    det, first = m.get('detection', {}), m.get('detection_round1') or m.get('detection', {})
    det = {c: v for c, v in det.items() if isinstance(v, dict)}
    first = {c: v for c, v in first.items() if isinstance(v, dict)}
    if not m.get('confirmed'):
        print("| %s | not confirmed (%s) | dropped | - | - |" % (name, "breaks pinned tests" if m.get('new_failing_tests') else "demo"))
        continue
    def st(x):
        e = x.get(own, {}).get('exit')
        others = [c for c, v in x.items() if c != own and v.get('exit') == 1]
        if e == 1: return "caught"
        if e == 2: return "harness-error" + (" (caught by %s)" % " ".join(others) if others else "")
        if e is None: return "not run"
        return "missed" + (" (caught by %s)" % " ".join(others) if others else "")
    caught = [c for c, v in det.items() if v.get('exit') == 1]
    caught.sort(key=lambda c: (c != own, c))
    if m.get('demo_on_head_rc') == 0:
        print("| %s | %s | neutralised | - | %s |" % (name, st(first) if first else "not run", "no longer breaks the property on the current /repo HEAD (a later fix: commit removed the precondition)"))
        continue
    what = (m.get('needs_to_manifest') or '').strip().splitlines()
    what = [l for l in what if l.strip() and not l.startswith('```')]
    w = re.sub(r'[|]', '/', what[0].lstrip('# ').strip())[:150] if what else ''
    now = st(det)
    if m.get('detection_note') and own not in caught:
        now = "not caught (see note)"
    print("| %s | %s | %s | %s | %s |" % (name, st(first), now, " ".join(caught), w + ((" **Note:** " + m['detection_note']) if m.get('detection_note') else "")))
