---- MODULE T2 ----
EXTENDS Integers, FiniteSets
R == 2
W == 2
Passes == 2
VARIABLES
  \* @type: Int -> Str;
  pc,
  \* @type: Str -> Int;
  owner,
  \* @type: Int;
  rc,
  \* @type: Int;
  wc,
  \* @type: Int -> Int;
  left
M == INSTANCE RWLock
Init == M!Init
Next == M!Next
Inv == M!Mutex
====
