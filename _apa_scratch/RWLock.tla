------------------------------- MODULE RWLock -------------------------------
(* Model of ecdsa/_rwlock.py (RWLock + two _LightSwitch objects, five threading.Lock
   objects) at lock-operation granularity: ONE ACTION PER CALL of acquire()/release()
   on one of the five underlying locks.  The update and test of a light-switch counter
   is folded into the step that acquires the protecting mutex (nobody else can read or
   write the counter before that mutex is released again, so no behaviour is lost).
   pc[t] names the NEXT lock operation thread t will perform; it is therefore exactly
   what a scheduler that pre-empts at lock calls can observe of a real thread.

       rq = RWLock.__readers_queue     nr = RWLock.__no_readers   nw = RWLock.__no_writers
       rm = __read_switch.__mutex      wm = __write_switch.__mutex
       rc = __read_switch.__counter    wc = __write_switch.__counter

   Every thread runs   for p in 1..Passes: X_acquire(); <critical section>; X_release()
   The critical section is one explicit step ("cs") so that "inside" is a state.

   threading.Lock semantics assumed: acquire() is enabled iff the lock is free; release()
   may be called by any thread and frees the lock (owner = the thread that acquired it,
   kept for observation only); release() of a free lock is an error (ReleaseHeld). *)
EXTENDS Naturals, FiniteSets, TLC

CONSTANTS R, W, Passes          \* readers 1..R, writers R+1..R+W

Readers == 1..R
Writers == (R + 1)..(R + W)
Threads == Readers \cup Writers
Locks   == {"rq", "nr", "nw", "rm", "wm"}

VARIABLES pc, owner, rc, wc, left
vars == <<pc, owner, rc, wc, left>>

(* label -> function the thread is in (ph), the lock call it is about to make (op, lk).
   Exported to the harness (MC_RWLock prints it): the walk compares the real thread's
   (phase, pending lock call) with Info[pc[t]]. *)
Info == [
  ra_rq     |-> [ph |-> "acq",  op |-> "acquire", lk |-> "rq"],   \* reader_acquire: self.__readers_queue.acquire()
  ra_nr     |-> [ph |-> "acq",  op |-> "acquire", lk |-> "nr"],   \*   self.__no_readers.acquire()
  ra_rm     |-> [ph |-> "acq",  op |-> "acquire", lk |-> "rm"],   \*   __read_switch.acquire: mutex.acquire(); counter += 1
  ra_nw     |-> [ph |-> "acq",  op |-> "acquire", lk |-> "nw"],   \*     if counter == 1: no_writers.acquire()
  ra_rm_rel |-> [ph |-> "acq",  op |-> "release", lk |-> "rm"],   \*     mutex.release()
  ra_nr_rel |-> [ph |-> "acq",  op |-> "release", lk |-> "nr"],   \*   self.__no_readers.release()
  ra_rq_rel |-> [ph |-> "acq",  op |-> "release", lk |-> "rq"],   \*   self.__readers_queue.release()
  r_cs      |-> [ph |-> "cs",   op |-> "cs",      lk |-> "-"],
  rr_rm     |-> [ph |-> "rel",  op |-> "acquire", lk |-> "rm"],   \* reader_release: mutex.acquire(); counter -= 1
  rr_nw_rel |-> [ph |-> "rel",  op |-> "release", lk |-> "nw"],   \*     if counter == 0: no_writers.release()
  rr_rm_rel |-> [ph |-> "rel",  op |-> "release", lk |-> "rm"],   \*     mutex.release()
  wa_wm     |-> [ph |-> "acq",  op |-> "acquire", lk |-> "wm"],   \* writer_acquire: __write_switch.acquire: mutex.acquire(); counter += 1
  wa_nr     |-> [ph |-> "acq",  op |-> "acquire", lk |-> "nr"],   \*     if counter == 1: no_readers.acquire()
  wa_wm_rel |-> [ph |-> "acq",  op |-> "release", lk |-> "wm"],   \*     mutex.release()
  wa_nw     |-> [ph |-> "acq",  op |-> "acquire", lk |-> "nw"],   \*   self.__no_writers.acquire()
  w_cs      |-> [ph |-> "cs",   op |-> "cs",      lk |-> "-"],
  wr_nw_rel |-> [ph |-> "rel",  op |-> "release", lk |-> "nw"],   \* writer_release: self.__no_writers.release()
  wr_wm     |-> [ph |-> "rel",  op |-> "acquire", lk |-> "wm"],   \*   __write_switch.release: mutex.acquire(); counter -= 1
  wr_nr_rel |-> [ph |-> "rel",  op |-> "release", lk |-> "nr"],   \*     if counter == 0: no_readers.release()
  wr_wm_rel |-> [ph |-> "rel",  op |-> "release", lk |-> "wm"],   \*     mutex.release()
  done      |-> [ph |-> "done", op |-> "none",    lk |-> "-"] ]

Labels == DOMAIN Info

TypeOK == /\ pc \in [Threads -> Labels]
          /\ owner \in [Locks -> Threads \cup {0}]
          /\ rc \in 0..R /\ wc \in 0..W
          /\ left \in [Threads -> 0..Passes]

Init == /\ pc = [t \in Threads |-> IF t \in Readers THEN "ra_rq" ELSE "wa_wm"]
        /\ owner = [l \in Locks |-> 0]
        /\ rc = 0 /\ wc = 0
        /\ left = [t \in Threads |-> Passes]

Goto(t, l) == pc' = [pc EXCEPT ![t] = l]
\* the lock call at label `from`
Acq(t, from) == /\ pc[t] = from
                /\ owner[Info[from].lk] = 0
                /\ owner' = [owner EXCEPT ![Info[from].lk] = t]
Rel(t, from) == /\ pc[t] = from
                /\ owner[Info[from].lk] # 0
                /\ owner' = [owner EXCEPT ![Info[from].lk] = 0]
\* end of one acquire/release cycle
Finish(t, first) == /\ left' = [left EXCEPT ![t] = left[t] - 1]
                    /\ Goto(t, IF left[t] = 1 THEN "done" ELSE first)

-----------------------------------------------------------------------------
(* reader *)
RA_Queue(t)     == Acq(t, "ra_rq") /\ Goto(t, "ra_nr") /\ UNCHANGED <<rc, wc, left>>
RA_Gate(t)      == Acq(t, "ra_nr") /\ Goto(t, "ra_rm") /\ UNCHANGED <<rc, wc, left>>
RA_SwitchIn(t)  == /\ Acq(t, "ra_rm")
                   /\ rc' = rc + 1
                   /\ Goto(t, IF rc + 1 = 1 THEN "ra_nw" ELSE "ra_rm_rel")
                   /\ UNCHANGED <<wc, left>>
RA_First(t)     == Acq(t, "ra_nw") /\ Goto(t, "ra_rm_rel") /\ UNCHANGED <<rc, wc, left>>
RA_SwitchOut(t) == Rel(t, "ra_rm_rel") /\ Goto(t, "ra_nr_rel") /\ UNCHANGED <<rc, wc, left>>
RA_GateRel(t)   == Rel(t, "ra_nr_rel") /\ Goto(t, "ra_rq_rel") /\ UNCHANGED <<rc, wc, left>>
RA_QueueRel(t)  == Rel(t, "ra_rq_rel") /\ Goto(t, "r_cs") /\ UNCHANGED <<rc, wc, left>>
R_CS(t)         == pc[t] = "r_cs" /\ Goto(t, "rr_rm") /\ UNCHANGED <<owner, rc, wc, left>>
RR_SwitchIn(t)  == /\ Acq(t, "rr_rm")
                   /\ rc' = rc - 1
                   /\ Goto(t, IF rc - 1 = 0 THEN "rr_nw_rel" ELSE "rr_rm_rel")
                   /\ UNCHANGED <<wc, left>>
RR_Last(t)      == Rel(t, "rr_nw_rel") /\ Goto(t, "rr_rm_rel") /\ UNCHANGED <<rc, wc, left>>
RR_SwitchOut(t) == Rel(t, "rr_rm_rel") /\ Finish(t, "ra_rq") /\ UNCHANGED <<rc, wc>>

RStep(t) == \/ RA_Queue(t) \/ RA_Gate(t) \/ RA_SwitchIn(t) \/ RA_First(t) \/ RA_SwitchOut(t)
            \/ RA_GateRel(t) \/ RA_QueueRel(t) \/ R_CS(t)
            \/ RR_SwitchIn(t) \/ RR_Last(t) \/ RR_SwitchOut(t)

(* writer *)
WA_SwitchIn(t)  == /\ Acq(t, "wa_wm")
                   /\ wc' = wc + 1
                   /\ Goto(t, IF wc + 1 = 1 THEN "wa_nr" ELSE "wa_wm_rel")
                   /\ UNCHANGED <<rc, left>>
WA_First(t)     == Acq(t, "wa_nr") /\ Goto(t, "wa_wm_rel") /\ UNCHANGED <<rc, wc, left>>
WA_SwitchOut(t) == Rel(t, "wa_wm_rel") /\ Goto(t, "wa_nw") /\ UNCHANGED <<rc, wc, left>>
WA_Excl(t)      == Acq(t, "wa_nw") /\ Goto(t, "w_cs") /\ UNCHANGED <<rc, wc, left>>
W_CS(t)         == pc[t] = "w_cs" /\ Goto(t, "wr_nw_rel") /\ UNCHANGED <<owner, rc, wc, left>>
WR_ExclRel(t)   == Rel(t, "wr_nw_rel") /\ Goto(t, "wr_wm") /\ UNCHANGED <<rc, wc, left>>
WR_SwitchIn(t)  == /\ Acq(t, "wr_wm")
                   /\ wc' = wc - 1
                   /\ Goto(t, IF wc - 1 = 0 THEN "wr_nr_rel" ELSE "wr_wm_rel")
                   /\ UNCHANGED <<rc, left>>
WR_Last(t)      == Rel(t, "wr_nr_rel") /\ Goto(t, "wr_wm_rel") /\ UNCHANGED <<rc, wc, left>>
WR_SwitchOut(t) == Rel(t, "wr_wm_rel") /\ Finish(t, "wa_wm") /\ UNCHANGED <<rc, wc>>

WStep(t) == \/ WA_SwitchIn(t) \/ WA_First(t) \/ WA_SwitchOut(t) \/ WA_Excl(t) \/ W_CS(t)
            \/ WR_ExclRel(t) \/ WR_SwitchIn(t) \/ WR_Last(t) \/ WR_SwitchOut(t)

Step(t) == IF t \in Readers THEN RStep(t) ELSE WStep(t)

AllDone == \A t \in Threads : pc[t] = "done"
Terminated == AllDone /\ UNCHANGED vars      \* so that termination is not a deadlock

Next == (\E t \in Readers : RStep(t)) \/ (\E t \in Writers : WStep(t)) \/ Terminated

Fairness == \A t \in Threads : WF_vars(Step(t))
Spec == Init /\ [][Next]_vars /\ Fairness

-----------------------------------------------------------------------------
(* properties *)
InCS(t)    == Info[pc[t]].ph = "cs"
\* from the return of X_acquire() to the first effect of X_release()
Holding(t) == InCS(t) \/ pc[t] \in {"rr_rm", "wr_nw_rel"}
Inside     == {t \in Threads : InCS(t)}

Mutex == \A w \in Writers : Holding(w) => \A t \in Threads \ {w} : ~Holding(t)

\* release() is only ever called on a held lock (else Python raises RuntimeError)
ReleaseHeld == \A t \in Threads : Info[pc[t]].op = "release" => owner[Info[pc[t]].lk] # 0

\* counters and gate locks are what the light-switch pattern says they are
Counted(t) == IF t \in Readers
              THEN pc[t] \in {"ra_nw", "ra_rm_rel", "ra_nr_rel", "ra_rq_rel", "r_cs", "rr_rm"}
              ELSE pc[t] \in {"wa_nr", "wa_wm_rel", "wa_nw", "w_cs", "wr_nw_rel", "wr_wm"}
CountersOK == /\ rc = Cardinality({t \in Readers : Counted(t)})
              /\ wc = Cardinality({t \in Writers : Counted(t)})
              /\ (\E t \in Readers : InCS(t)) => owner["nw"] \in Readers
              /\ (\E t \in Writers : InCS(t)) => owner["nw"] \in Writers /\ owner["nr"] \in Writers
              /\ \A t \in Threads : left[t] = 0 <=> pc[t] = "done"

Termination == <>AllDone

(* Writer preference, in the form the code guarantees: while the writers hold the gate
   no_readers, no further reader is admitted (the read counter cannot grow), and writers
   that arrive meanwhile ride on the same gate (wc > 1) -- they all go before any reader. *)
WriterPreference == [][owner["nr"] \in Writers => rc' <= rc]_vars

(* NOT guaranteed (TLC refutes it; kept as documentation, see MC_RWLock):
   "once a writer has called writer_acquire() no new reader is admitted".  A reader that
   already holds no_readers is admitted first, and after it has released no_readers the
   next queued reader competes with the waiting writer for that lock on equal terms. *)
WriterWaiting(t) == pc[t] \in {"wa_nr", "wa_wm_rel", "wa_nw"}
StrongWriterPreference == [][(\E w \in Writers : WriterWaiting(w)) => rc' <= rc]_vars

(* What a user observes - who is inside - is a behaviour of the abstract reader-writer lock RWLockAbs *)
Abs == INSTANCE RWLockAbs WITH rd <- {t \in Readers : InCS(t)}, wr <- {t \in Writers : InCS(t)}
RefinesAbstract == Abs!Spec

(* reachability witness: readers do share.  Checked as an invariant TLC must VIOLATE. *)
ReadersNeverShare == ~ \E r1, r2 \in Readers : r1 # r2 /\ InCS(r1) /\ InCS(r2)
=============================================================================
