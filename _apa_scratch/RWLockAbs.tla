----------------------------- MODULE RWLockAbs -----------------------------
(* What a USER of a reader-writer lock can observe (C20, lock clause): who holds the lock.
   rd = readers inside, wr = writers inside.  A reader enters only while no writer is inside, a writer only while
   nobody is inside; everybody inside may leave.  Nothing else is said: no lock objects, no counters, no preference.
   RWLock.tla (the lock-operation model of ecdsa/_rwlock.py) refines this specification (checked by TLC in MC_RWLock:
   property RefinesAbstract); Trace_RWLockAbs judges observations of the REAL lock by StepOK / Mutex, whatever the
   lock is made of. *)
EXTENDS Naturals, FiniteSets
CONSTANTS Readers, Writers
VARIABLES rd, wr
vars == <<rd, wr>>

TypeOK == rd \subseteq Readers /\ wr \subseteq Writers
Init == rd = {} /\ wr = {}

\* one observable step from holder sets (r1, w1) to (r2, w2), the readers being RS and the writers WS
StepOKIn(RS, WS, op, t, r1, w1, r2, w2) ==
    \/ op = "acquire_r" /\ t \in RS \ r1 /\ w1 = {} /\ r2 = r1 \cup {t} /\ w2 = w1
    \/ op = "release_r" /\ t \in r1 /\ r2 = r1 \ {t} /\ w2 = w1
    \/ op = "acquire_w" /\ t \in WS \ w1 /\ w1 = {} /\ r1 = {} /\ w2 = {t} /\ r2 = r1
    \/ op = "release_w" /\ t \in w1 /\ w2 = w1 \ {t} /\ r2 = r1
StepOK(op, t, r1, w1, r2, w2) == StepOKIn(Readers, Writers, op, t, r1, w1, r2, w2)
MutexOf(r, w) == w # {} => Cardinality(w) = 1 /\ r = {}

Ops == {"acquire_r", "release_r", "acquire_w", "release_w"}
Next == \E op \in Ops, t \in Readers \cup Writers : StepOK(op, t, rd, wr, rd', wr')
Spec == Init /\ [][Next]_vars
Mutex == MutexOf(rd, wr)
\* several readers can hold the lock together (reachability; as an invariant it must be VIOLATED)
ReadersNeverShare == Cardinality(rd) <= 1
=============================================================================
