---- MODULE T1 ----
EXTENDS RWLock
====
