Logging is disabled (Z3SolverContext.debug = false). Activate with --debug.
