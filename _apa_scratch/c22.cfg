CONSTANTS
 R = 2
 W = 2
INIT Init
NEXT Next
